package main

import (
	"fmt"
	"golang.org/x/tools/go/packages"
	"golang.org/x/tools/go/ssa"
	"golang.org/x/tools/go/ssa/ssautil"
)

func main() {
	cfg := &packages.Config{Mode: packages.LoadAllSyntax, Dir: "/repo"}
	pkgs, err := packages.Load(cfg, "github.com/superfly/litefs")
	if err != nil { panic(err) }
	prog, spkgs := ssautil.AllPackages(pkgs, ssa.InstantiateGenerics)
	prog.Build()
	fmt.Println(len(spkgs), spkgs[0].Func("WALChecksum"))
}
