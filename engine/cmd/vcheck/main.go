// vcheck: solver-based checking of litefs properties (see /verif/DESIGN.md).
package main

import (
	"bufio"
	"encoding/json"
	"flag"
	"fmt"
	"os"
	"os/exec"
	"path/filepath"
	"runtime"
	"sort"
	"strconv"
	"strings"
	"time"

	"verif/engine/sym"
)

type HarnessSpec struct {
	Name         string   `json:"name"`
	Pkg          string   `json:"pkg"`
	Func         string   `json:"func"`
	Tiers        []string `json:"tiers"` // which tiers run it; empty = both
	MaxDecisions int      `json:"max_decisions"`
	TimeoutMS    int      `json:"timeout_ms"`
	MaxPaths     int      `json:"max_paths"`
	MaxSeconds   int      `json:"max_seconds"`
	Native       bool     `json:"native"` // witnesses/counterexamples are replayed natively (go test -overlay)
	NativeViolationsOnly bool `json:"native_violations_only"` // only counterexamples are replayed natively (witness paths use engine-only scheduling points)
	NativeTest   string   `json:"native_test"`
	SkipGo       []string `json:"skip_go"`
	Twins        []string `json:"twins"` // TWIN: check messages that must be violated
	Reach        []string `json:"reach"` // tags that must be reached
	What         string   `json:"what"`
}

type PropSpec struct {
	Property    string            `json:"property"`
	Packages    []string          `json:"packages"`
	Harnesses   []HarnessSpec     `json:"harnesses"`
	Bounds      map[string]string `json:"bounds"`
	Stubs       []string          `json:"stubs"`
	Assumptions []string          `json:"assumptions"`
	Outside     []string          `json:"outside"`
	Level       string            `json:"level"`
}

type KnownFinding struct {
	Status   string `json:"status"` // "open" or "fixed"
	Property string `json:"property"`
	Harness  string `json:"harness"`
	Match    string `json:"match"` // substring of "msg|site-function"
	What     string `json:"what"`
	Commit   string `json:"commit,omitempty"`
}

const verifDir = "/verif"

func repoDir() string {
	if d := os.Getenv("VERIF_REPO"); d != "" {
		return d
	}
	return "/repo"
}

func main() {
	if len(os.Args) < 2 {
		fmt.Fprintln(os.Stderr, "usage: vcheck run <Cxx> [--tier quick|thorough] | replay <file> | list")
		os.Exit(2)
	}
	switch os.Args[1] {
	case "run":
		os.Exit(cmdRun(os.Args[2:]))
	case "replay":
		os.Exit(cmdReplay(os.Args[2:]))
	default:
		fmt.Fprintln(os.Stderr, "unknown command")
		os.Exit(2)
	}
}

func loadSpec(id string) (*PropSpec, error) {
	b, err := os.ReadFile(filepath.Join(verifDir, "props", id+".json"))
	if err != nil {
		return nil, err
	}
	var ps PropSpec
	if err := json.Unmarshal(b, &ps); err != nil {
		return nil, err
	}
	return &ps, nil
}

func loadKnown() []KnownFinding {
	f, err := os.Open(filepath.Join(verifDir, "KNOWN_FINDINGS.jsonl"))
	if err != nil {
		return nil
	}
	defer f.Close()
	var out []KnownFinding
	sc := bufio.NewScanner(f)
	sc.Buffer(make([]byte, 1<<20), 1<<20)
	for sc.Scan() {
		line := strings.TrimSpace(sc.Text())
		if line == "" || strings.HasPrefix(line, "#") {
			continue
		}
		var k KnownFinding
		if json.Unmarshal([]byte(line), &k) == nil {
			out = append(out, k)
		}
	}
	return out
}

func tierOK(h HarnessSpec, tier string) bool {
	if len(h.Tiers) == 0 {
		return true
	}
	for _, t := range h.Tiers {
		if t == tier {
			return true
		}
	}
	return false
}

type harnessResult struct {
	Name         string         `json:"harness"`
	What         string         `json:"what,omitempty"`
	Paths        int            `json:"paths_completed"`
	Infeasible   int            `json:"paths_infeasible"`
	Blocks       int64          `json:"ssa_blocks"`
	Steps        int64          `json:"ssa_instructions"`
	Obligations  int            `json:"obligations"`
	Discharged   int            `json:"discharged"`
	Syntactic    int            `json:"discharged_syntactically"`
	Sat          int            `json:"queries_sat"`
	Unsat        int            `json:"queries_unsat"`
	Unknown      int            `json:"queries_unknown"`
	SolverS      float64        `json:"solver_s"`
	WallS        float64        `json:"wall_s"`
	Reached      map[string]int `json:"reach_witnesses"`
	TwinsSeen    []string       `json:"twin_assertions_violated_as_expected"`
	Notes        map[string]int `json:"notes,omitempty"`
	Inconclusive []string       `json:"inconclusive,omitempty"`
	NativeReplays int           `json:"native_replays"`
	EngineReplays int           `json:"engine_concrete_replays"`
}

func cmdRun(args []string) int {
	fs := flag.NewFlagSet("run", flag.ExitOnError)
	tier := fs.String("tier", "", "quick|thorough")
	only := fs.String("harness", "", "run only this harness")
	workers := fs.Int("workers", 0, "worker count")
	trace := fs.Bool("trace", false, "trace calls")
	solver := fs.String("solver", "z3", "solver binary")
	noEvidence := fs.Bool("no-evidence", false, "do not write the evidence file")
	if len(args) < 1 {
		fmt.Fprintln(os.Stderr, "usage: vcheck run <Cxx> ...")
		return 2
	}
	id := args[0]
	fs.Parse(args[1:])
	if *tier == "" {
		*tier = os.Getenv("VERIF_TIER")
	}
	if *tier == "" {
		*tier = "quick"
	}
	seed, _ := strconv.Atoi(os.Getenv("VERIF_SEED"))
	if *workers == 0 {
		*workers = runtime.NumCPU()
		if *workers > 16 {
			*workers = 16
		}
	}
	t0 := time.Now()
	spec, err := loadSpec(id)
	if err != nil {
		fmt.Println("INCONCLUSIVE: cannot load spec:", err)
		return 3
	}
	prog, err := sym.Load(repoDir(), verifDir, spec.Packages)
	if err != nil {
		fmt.Println("INCONCLUSIVE:", err)
		return 3
	}
	loadS := time.Since(t0).Seconds()
	known := loadKnown()
	tierN := 0
	if *tier == "thorough" {
		tierN = 1
	}

	var results []harnessResult
	var allViol []*sym.Violation
	var knownHits []string
	funcs := map[string]bool{}
	inconclusive := false
	var samples []interface{}
	totalReplays := 0
	for _, h := range spec.Harnesses {
		if *only != "" && h.Name != *only && h.Func != *only {
			continue
		}
		if !tierOK(h, *tier) {
			continue
		}
		ht0 := time.Now()
		ex, err := prog.NewExplorerFor(h.Pkg, h.Func)
		if err != nil {
			fmt.Println("INCONCLUSIVE:", err)
			return 3
		}
		ex.Tier = tierN
		ex.Workers = *workers
		ex.SolverBin = *solver
		ex.SetTrace(*trace)
		ex.SkipGo(h.SkipGo...)
		if h.MaxDecisions > 0 {
			ex.MaxDecisions = h.MaxDecisions
		}
		if h.TimeoutMS > 0 {
			ex.TimeoutMS = h.TimeoutMS
		}
		if h.MaxPaths > 0 {
			ex.MaxPaths = h.MaxPaths
		}
		maxS := h.MaxSeconds
		if maxS == 0 {
			maxS = 1500
		}
		if tierN > 0 {
			maxS *= 8
		}
		ex.Deadline = time.Now().Add(time.Duration(maxS) * time.Second)
		ex.Run()
		hr := harnessResult{Name: h.Name, What: h.What, Paths: ex.PathsDone, Infeasible: ex.Infeasible, Blocks: ex.Blocks, Steps: ex.Steps,
			Obligations: ex.Checks, Discharged: ex.Discharged, Syntactic: ex.Trivial,
			Sat: ex.NSat, Unsat: ex.NUnsat, Unknown: ex.NUnknown, SolverS: ex.SolverTime.Seconds(),
			Reached: ex.Reached, Notes: ex.Notes}
		for tw := range ex.ExpectSeen {
			hr.TwinsSeen = append(hr.TwinsSeen, tw)
		}
		sort.Strings(hr.TwinsSeen)
		hr.Inconclusive = ex.InconclusiveSummary()
		// vacuity: required reach tags and twins
		for _, tag := range h.Reach {
			if ex.Reached[tag] == 0 {
				hr.Inconclusive = append(hr.Inconclusive, "VACUOUS: reach tag never reached: "+tag)
			}
		}
		for _, tw := range h.Twins {
			if !ex.ExpectSeen["TWIN:"+tw] {
				hr.Inconclusive = append(hr.Inconclusive, "VACUOUS: twin assertion was not violated: "+tw)
			}
		}
		if ex.PathsDone == 0 && len(ex.Violations) == 0 {
			hr.Inconclusive = append(hr.Inconclusive, "VACUOUS: no path completed")
		}
		for k := range ex.FuncsSeen {
			funcs[k] = true
		}
		// native replay (go test -overlay against the real build): witnesses and counterexamples
		nativeRes := map[*sym.Violation]string{}
		if h.Native {
			var items []*sym.Violation
			var tags []string
			for tag := range ex.ReachModels {
				tags = append(tags, tag)
			}
			sort.Strings(tags)
			if h.NativeViolationsOnly {
				tags = nil
				ex.PathWitnesses = nil
			}
			for _, tag := range tags {
				items = append(items, ex.ReachModels[tag])
			}
			items = append(items, ex.PathWitnesses...)
			items = append(items, ex.Violations...)
			if len(items) > 0 {
				nativeRes = nativeBatch(h, items)
			}
			for _, tag := range tags {
				w := ex.ReachModels[tag]
				out := nativeRes[w]
				// a witness taken in the middle of a path may run into a later assumption natively
				if (strings.HasPrefix(out, "ok|") || strings.HasPrefix(out, "assume-failed|")) && containsTag(out, tag) {
					hr.NativeReplays++
					totalReplays++
				} else {
					hr.Inconclusive = append(hr.Inconclusive, fmt.Sprintf("TRANSLATOR-MISMATCH: witness for %q did not behave natively as predicted: %s", tag, out))
				}
			}
		}
		for _, w := range ex.PathWitnesses {
			out := nativeRes[w]
			if !h.Native {
				break
			}
			want := "ok|" + strings.TrimPrefix(w.Expect, "ok:")
			if sameTags(out, want) {
				hr.NativeReplays++
				totalReplays++
			} else {
				hr.Inconclusive = append(hr.Inconclusive, fmt.Sprintf("TRANSLATOR-MISMATCH: completed-path witness behaved differently natively: predicted %q, native %q", want, out))
			}
		}
		for _, v := range ex.Violations {
			v.Harness = h.Name
			ok := engineReplay(prog, h, v, tierN)
			if ok {
				hr.EngineReplays++
			}
			if !ok {
				hr.Inconclusive = append(hr.Inconclusive, "UNCONFIRMED: counterexample did not reproduce in concrete replay: "+v.Msg+" @ "+v.Site+" choices="+strings.Join(v.ChoiceTags, ","))
				continue
			}
			if h.Native {
				out := nativeRes[v]
				if strings.HasPrefix(out, "fail:") || strings.HasPrefix(out, "panic:") {
					hr.NativeReplays++
					totalReplays++
				} else if k := matchKnown(known, id, h.Name, v); k != nil {
					// a schedule the native runtime cannot drive (engine-only preemption points), but it is the
					// history class of a listed finding and reproduces in the engine's concrete replay
					knownHits = append(knownHits, fmt.Sprintf("KNOWN-FINDING: property=%s %s [%s: %s @ %s] (engine replay only)", id, k.What, h.Name, v.Msg, v.Site))
					continue
				} else {
					hr.Inconclusive = append(hr.Inconclusive, "UNCONFIRMED: counterexample did not reproduce natively ("+out+"): "+v.Msg+" @ "+v.Site)
					continue
				}
			}
			if k := matchKnown(known, id, h.Name, v); k != nil {
				knownHits = append(knownHits, fmt.Sprintf("KNOWN-FINDING: property=%s %s [%s: %s @ %s]", id, k.What, h.Name, v.Msg, v.Site))
				continue
			}
			allViol = append(allViol, v)
		}
		if len(hr.Inconclusive) > 0 {
			inconclusive = true
		}
		for _, s := range ex.Samples {
			if len(samples) < 8 {
				samples = append(samples, map[string]string{"harness": h.Name, "path": s})
			}
		}
		hr.WallS = time.Since(ht0).Seconds()
		results = append(results, hr)
		fmt.Printf("harness %-28s paths=%d infeasible=%d obligations=%d discharged=%d sat=%d unsat=%d unknown=%d solver=%.1fs wall=%.1fs viol=%d\n",
			h.Name, hr.Paths, hr.Infeasible, hr.Obligations, hr.Discharged, hr.Sat, hr.Unsat, hr.Unknown, hr.SolverS, hr.WallS, len(ex.Violations))
		for _, s := range hr.Inconclusive {
			fmt.Println("  INCONCLUSIVE:", s)
		}
	}
	if len(results) == 0 {
		fmt.Println("INCONCLUSIVE: no harness selected")
		return 3
	}

	// write replay files + report
	exit := 0
	os.MkdirAll(filepath.Join(verifDir, "out", "replay"), 0o755)
	for i, v := range allViol {
		path := filepath.Join(verifDir, "out", "replay", fmt.Sprintf("%s-%d.json", id, i))
		b, _ := json.MarshalIndent(v, "", " ")
		os.WriteFile(path, b, 0o644)
		fmt.Printf("VIOLATION property=%s replay=%s\n", id, path)
		fmt.Printf("  %s: %s @ %s\n  stack: %s\n", v.Harness, v.Msg, v.Site, v.Stack)
		exit = 1
	}
	sort.Strings(knownHits)
	for _, k := range uniq(knownHits) {
		fmt.Println(k)
	}
	if exit == 0 && inconclusive {
		exit = 3
	}

	if !*noEvidence && *only == "" {
		writeEvidence(id, spec, *tier, seed, results, funcs, prog, samples, len(allViol), time.Since(t0).Seconds(), loadS, *solver, knownHits, totalReplays)
	}
	if exit == 0 {
		fmt.Printf("OK property=%s tier=%s wall=%.1fs\n", id, *tier, time.Since(t0).Seconds())
	} else if exit == 3 {
		fmt.Printf("INCONCLUSIVE property=%s tier=%s\n", id, *tier)
	}
	return exit
}

func uniq(s []string) []string {
	var out []string
	for i, x := range s {
		if i == 0 || x != s[i-1] {
			out = append(out, x)
		}
	}
	return out
}

func matchKnown(known []KnownFinding, id, harness string, v *sym.Violation) *KnownFinding {
	key := v.Msg + "|" + v.Site + "|" + v.Stack
	for i := range known {
		k := &known[i]
		if k.Status != "open" || k.Property != id {
			continue
		}
		if k.Harness != "" && k.Harness != harness {
			continue
		}
		all := true
		for _, part := range strings.Split(k.Match, "&&") {
			if !strings.Contains(key, strings.TrimSpace(part)) {
				all = false
			}
		}
		if all {
			return k
		}
	}
	return nil
}

// engineReplay re-executes the harness with the model's concrete values; all
// branches then fold to constants and the same obligation must fail.
func engineReplay(prog *sym.Program, h HarnessSpec, v *sym.Violation, tier int) bool {
	ex, err := prog.NewExplorerFor(h.Pkg, h.Func)
	if err != nil {
		return false
	}
	ex.Tier = tier
	ex.Replay = v
	ex.SkipGo(h.SkipGo...)
	ex.Run()
	for _, w := range ex.Violations {
		if w.Msg == v.Msg {
			return true
		}
	}
	if os.Getenv("VERIF_DEBUG_REPLAY") != "" {
		fmt.Println("  engine replay: violations:", len(ex.Violations), "inconclusive:", ex.InconclusiveSummary())
	}
	return false
}

func sameTags(a, b string) bool {
	norm := func(s string) string {
		i := strings.Index(s, "|")
		if i < 0 {
			return s
		}
		m := map[string]bool{}
		for _, t := range strings.Split(s[i+1:], ",") {
			if t != "" {
				m[t] = true
			}
		}
		return s[:i] + "|" + strings.Join(sym.SortedKeys(m), ",")
	}
	return norm(a) == norm(b)
}

func containsTag(out, tag string) bool {
	i := strings.Index(out, "|")
	if i < 0 {
		return false
	}
	for _, t := range strings.Split(out[i+1:], ",") {
		if t == tag {
			return true
		}
	}
	return false
}

// nativeBatch replays items natively with one `go test -overlay` run of the
// harness package; result per item: "ok|tags", "fail:msg", "panic:msg", ...
func nativeBatch(h HarnessSpec, items []*sym.Violation) map[*sym.Violation]string {
	res := map[*sym.Violation]string{}
	os.MkdirAll(filepath.Join(verifDir, "out"), 0o755)
	dir, err := os.MkdirTemp(filepath.Join(verifDir, "out"), "native-")
	if err != nil {
		return res
	}
	defer os.RemoveAll(dir)
	rdir := filepath.Join(dir, "replays")
	os.MkdirAll(rdir, 0o755)
	byFile := map[string]*sym.Violation{}
	for i, it := range items {
		name := fmt.Sprintf("r%04d.json", i)
		b, _ := json.Marshal(it)
		os.WriteFile(filepath.Join(rdir, name), b, 0o644)
		byFile[name] = it
	}
	_, src, err := sym.BuildOverlay(repoDir(), verifDir)
	if err != nil {
		return res
	}
	ovb, _ := json.Marshal(struct{ Replace map[string]string }{Replace: src})
	ovf := filepath.Join(dir, "overlay.json")
	os.WriteFile(ovf, ovb, 0o644)
	test := h.NativeTest
	if test == "" {
		test = "TestVerifNative"
	}
	cmd := exec.Command("go", "test", "-mod=mod", "-vet=off", "-count=1", "-v", "-overlay", ovf, "-run", "^"+test+"$", "-timeout", "600s", h.Pkg)
	cmd.Dir = repoDir()
	cmd.Env = append(os.Environ(), "GOFLAGS=-mod=mod", "GOPROXY=off", "GOSUMDB=off", "GOTOOLCHAIN=local", "VERIF_REPLAY_DIR="+rdir)
	out, _ := cmd.CombinedOutput()
	if os.Getenv("VERIF_DEBUG_REPLAY") != "" {
		fmt.Println(string(out))
	}
	for _, line := range strings.Split(string(out), "\n") {
		if !strings.HasPrefix(line, "VERIF-NATIVE-RESULT ") {
			continue
		}
		var file, outcome, reached string
		rest := strings.TrimPrefix(line, "VERIF-NATIVE-RESULT ")
		if i := strings.Index(rest, " outcome="); i >= 0 {
			file = strings.TrimPrefix(rest[:i], "file=")
			rest = rest[i+len(" outcome="):]
		}
		if j := strings.LastIndex(rest, " reached="); j >= 0 {
			outcome, reached = rest[:j], rest[j+len(" reached="):]
		} else {
			outcome = rest
		}
		if it := byFile[file]; it != nil {
			if outcome == "ok" || outcome == "assume-failed" {
				res[it] = outcome + "|" + reached
			} else {
				res[it] = outcome
			}
		}
	}
	for _, it := range items {
		if _, ok := res[it]; !ok {
			res[it] = "no-result (native build or run failed)"
		}
	}
	return res
}

func cmdReplay(args []string) int {
	if len(args) < 1 {
		fmt.Fprintln(os.Stderr, "usage: vcheck replay <file>")
		return 2
	}
	b, err := os.ReadFile(args[0])
	if err != nil {
		fmt.Println(err)
		return 2
	}
	var v sym.Violation
	if err := json.Unmarshal(b, &v); err != nil {
		fmt.Println(err)
		return 2
	}
	// find the harness
	specs, _ := filepath.Glob(filepath.Join(verifDir, "props", "*.json"))
	for _, sp := range specs {
		id := strings.TrimSuffix(filepath.Base(sp), ".json")
		spec, err := loadSpec(id)
		if err != nil {
			continue
		}
		for _, h := range spec.Harnesses {
			if h.Name != v.Harness {
				continue
			}
			prog, err := sym.Load(repoDir(), verifDir, spec.Packages)
			if err != nil {
				fmt.Println(err)
				return 3
			}
			okE := engineReplay(prog, h, &v, 0) || engineReplay(prog, h, &v, 1)
			fmt.Printf("engine concrete replay of %s (%s): reproduced=%v\n", v.Harness, v.Msg, okE)
			if h.Native {
				out := nativeBatch(h, []*sym.Violation{&v})[&v]
				fmt.Printf("native replay: %s\n", out)
				if strings.HasPrefix(out, "fail:") || strings.HasPrefix(out, "panic:") {
					return 1
				}
				return 0
			}
			if okE {
				return 1
			}
			return 0
		}
	}
	fmt.Println("harness not found:", v.Harness)
	return 2
}

func writeEvidence(id string, spec *PropSpec, tier string, seed int, results []harnessResult, funcs map[string]bool, prog *sym.Program,
	samples []interface{}, violations int, wall, loadS float64, solver string, knownHits []string, nativeReplays int) {
	states, transitions := 0, int64(0)
	obl, dis := 0, 0
	var sat, unsat, unknown int
	var solverS float64
	for _, r := range results {
		states += r.Paths
		transitions += r.Blocks
		obl += r.Obligations
		dis += r.Discharged
		sat += r.Sat
		unsat += r.Unsat
		unknown += r.Unknown
		solverS += r.SolverS
	}
	hashes := prog.FuncHashes(funcs)
	var fnames []string
	for k := range hashes {
		fnames = append(fnames, k)
	}
	sort.Strings(fnames)
	var flist []string
	for _, k := range fnames {
		flist = append(flist, k+"#"+hashes[k])
	}
	if len(samples) == 0 {
		samples = append(samples, "no completed path sample")
	}
	solverVersion := ""
	if out, err := exec.Command(solver, "--version").Output(); err == nil {
		solverVersion = strings.TrimSpace(string(out))
	}
	level := spec.Level
	if level == "" {
		level = "model_checking"
	}
	if states < 1 {
		states = 1
	}
	if transitions < 1 {
		transitions = 1
	}
	ev := map[string]interface{}{
		"property_id": id,
		"tier":        tier,
		"seed":        seed,
		"level":       level,
		"wall_s":      wall,
		"violations":  violations,
		"assumptions": append(append([]string{}, spec.Assumptions...), spec.Stubs...),
		"coverage": map[string]interface{}{
			"states":                        states,
			"transitions":                   transitions,
			"traces_validated_against_impl": nativeReplays,
			"samples":                       samples,
			"obligations":                   obl,
			"discharged":                    dis,
			"queries":                       map[string]int{"sat": sat, "unsat": unsat, "unknown": unknown},
			"solver_s":                      solverS,
			"load_and_ssa_build_s":          loadS,
			"solver":                        solverVersion,
			"functions_encoded":             flist,
			"bounds":                        spec.Bounds,
			"outside_claim":                 spec.Outside,
			"stubs":                         spec.Stubs,
			"harnesses":                     results,
			"known_findings_reported":       uniq(knownHits),
			"explanation": "states = symbolic paths completed (each path stands for all values of its symbolic inputs satisfying the path condition); " +
				"transitions = SSA basic blocks executed by the symbolic interpreter over the real code's SSA (rebuilt from /repo on this run); " +
				"obligations = Check() sites evaluated on those paths, discharged = proven unsat by the solver or by constant folding.",
			"exhaustive": false,
		},
	}
	os.MkdirAll(filepath.Join(verifDir, "evidence"), 0o755)
	b, _ := json.MarshalIndent(ev, "", " ")
	os.WriteFile(filepath.Join(verifDir, "evidence", id+".json"), b, 0o644)
}
