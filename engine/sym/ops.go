package sym

import (
	"fmt"
	"go/token"
	"go/types"

	"golang.org/x/tools/go/ssa"
)

func (in *Interp) unop(fr *frame, instr *ssa.UnOp) Value {
	x := fr.get(instr.X)
	switch instr.Op {
	case token.MUL: // load
		v := in.load(x)
		if g, ok := instr.X.(*ssa.Global); ok {
			in.checkGlobalRead(g, v)
		}
		return v
	case token.NOT:
		return in.tb.Not(x.(*Term))
	case token.SUB:
		if _, ok := x.(Float); ok {
			return Float{"neg"}
		}
		return in.tb.Neg(x.(*Term))
	case token.XOR:
		return in.tb.BNot(x.(*Term))
	case token.ARROW:
		v, ok := in.chanRecv(x, instr.X.Type())
		if instr.CommaOk {
			return Tuple{v, in.tb.Bool(ok)}
		}
		return v
	}
	panic(in.unsupported("unop " + instr.Op.String()))
}

func (in *Interp) binop(op token.Token, xt types.Type, x, y Value, yt types.Type) Value {
	tb := in.tb
	switch op {
	case token.EQL:
		return in.valEq(x, y)
	case token.NEQ:
		return tb.Not(in.valEq(x, y))
	}
	switch a := x.(type) {
	case *Term:
		b, ok := y.(*Term)
		if !ok {
			panic(in.unsupported(fmt.Sprintf("binop %s term vs %T", op, y)))
		}
		_, signed, _ := intWidth(xt)
		switch op {
		case token.ADD:
			return tb.Add(a, b)
		case token.SUB:
			return tb.Sub(a, b)
		case token.MUL:
			return tb.Mul(a, b)
		case token.QUO, token.REM:
			if !in.Branch(tb.Not(tb.Eq(b, tb.Const(b.W, 0)))) {
				panic(in.goPanic("integer divide by zero"))
			}
			if op == token.QUO {
				if signed {
					return tb.SDiv(a, b)
				}
				return tb.UDiv(a, b)
			}
			if signed {
				return tb.SRem(a, b)
			}
			return tb.URem(a, b)
		case token.AND:
			if a.W == 0 {
				return tb.And(a, b)
			}
			return tb.BAnd(a, b)
		case token.OR:
			if a.W == 0 {
				return tb.Or(a, b)
			}
			return tb.BOr(a, b)
		case token.XOR:
			if a.W == 0 {
				return tb.Not(tb.Eq(a, b))
			}
			return tb.BXor(a, b)
		case token.AND_NOT:
			return tb.BAnd(a, tb.BNot(b))
		case token.SHL, token.SHR:
			return in.shift(op, a, signed, b, yt)
		case token.LSS:
			if signed {
				return tb.SLt(a, b)
			}
			return tb.ULt(a, b)
		case token.LEQ:
			if signed {
				return tb.SLe(a, b)
			}
			return tb.ULe(a, b)
		case token.GTR:
			if signed {
				return tb.SLt(b, a)
			}
			return tb.ULt(b, a)
		case token.GEQ:
			if signed {
				return tb.SLe(b, a)
			}
			return tb.ULe(b, a)
		}
	case string:
		switch b := y.(type) {
		case string:
			switch op {
			case token.ADD:
				return a + b
			case token.LSS:
				return tb.Bool(a < b)
			case token.LEQ:
				return tb.Bool(a <= b)
			case token.GTR:
				return tb.Bool(a > b)
			case token.GEQ:
				return tb.Bool(a >= b)
			}
		case *SymStr:
			if op == token.ADD {
				return mkStr(append(in.strBytes(a), b.B...))
			}
		}
	case *SymStr:
		if op == token.ADD {
			return mkStr(append(append([]*Term(nil), a.B...), in.strBytes(y)...))
		}
		if op == token.LSS || op == token.LEQ || op == token.GTR || op == token.GEQ {
			return in.strCompare(op, in.strBytes(x), in.strBytes(y))
		}
	case Float:
		switch op {
		case token.ADD, token.SUB, token.MUL, token.QUO:
			return Float{"arith"}
		case token.LSS, token.LEQ, token.GTR, token.GEQ:
			// opaque float comparison: nondeterministic
			return in.freshBool("fcmp")
		}
	}
	if _, ok := y.(*SymStr); ok {
		if op == token.LSS || op == token.LEQ || op == token.GTR || op == token.GEQ {
			return in.strCompare(op, in.strBytes(x), in.strBytes(y))
		}
	}
	panic(in.unsupported(fmt.Sprintf("binop %s on %T, %T", op, x, y)))
}

// strCompare builds a lexicographic comparison of byte strings.
func (in *Interp) strCompare(op token.Token, a, b []*Term) *Term {
	tb := in.tb
	// lt(a,b): exists i: prefix equal and a[i] < b[i], or a is a proper prefix
	var lt func(i int) *Term
	lt = func(i int) *Term {
		if i >= len(b) {
			return tb.F
		}
		if i >= len(a) {
			return tb.T
		}
		return tb.Or(tb.ULt(a[i], b[i]), tb.And(tb.Eq(a[i], b[i]), lt(i+1)))
	}
	eq := tb.F
	if len(a) == len(b) {
		cs := make([]*Term, len(a))
		for i := range a {
			cs[i] = tb.Eq(a[i], b[i])
		}
		eq = tb.And(cs...)
	}
	switch op {
	case token.LSS:
		return lt(0)
	case token.LEQ:
		return tb.Or(lt(0), eq)
	case token.GTR:
		return tb.Not(tb.Or(lt(0), eq))
	default:
		return tb.Not(lt(0))
	}
}

func (in *Interp) shift(op token.Token, a *Term, signed bool, n *Term, nt types.Type) *Term {
	tb := in.tb
	_, nsigned, _ := intWidth(nt)
	if nsigned {
		neg := tb.SLt(n, tb.Const(n.W, 0))
		if in.Branch(neg) {
			panic(in.goPanic("negative shift amount"))
		}
	}
	w := a.W
	// bring n to width w, saturating
	var cnt *Term
	var big *Term
	if n.W > w {
		big = tb.ULe(tb.Const(n.W, uint64(w)), n)
		cnt = tb.Extract(n, w-1, 0)
	} else {
		cnt = tb.Zext(n, w)
		big = tb.ULe(tb.Const(w, uint64(w)), cnt)
	}
	var r, over *Term
	switch {
	case op == token.SHL:
		r, over = tb.Shl(a, cnt), tb.Const(w, 0)
	case signed:
		r, over = tb.AShr(a, cnt), tb.AShr(a, tb.Const(w, uint64(w-1)))
	default:
		r, over = tb.LShr(a, cnt), tb.Const(w, 0)
	}
	return tb.Ite(big, over, r)
}

func (in *Interp) convert(from, to types.Type, x Value) Value {
	tb := in.tb
	fu, tu := from.Underlying(), to.Underlying()
	// unsafe.Pointer conversions
	if tb2, ok := tu.(*types.Basic); ok && tb2.Kind() == types.UnsafePointer {
		switch p := x.(type) {
		case *Value:
			var elem types.Type
			if pt, ok := fu.(*types.Pointer); ok {
				elem = pt.Elem()
			}
			return UnsafePtr{P: p, Elem: elem, Arr: in.elemOrigin[p]}
		case UnsafePtr:
			return p
		case *Term: // uintptr -> unsafe.Pointer
			panic(in.unsupported("uintptr to unsafe.Pointer"))
		}
	}
	if fb, ok := fu.(*types.Basic); ok && fb.Kind() == types.UnsafePointer {
		up, _ := x.(UnsafePtr)
		if pt, ok := tu.(*types.Pointer); ok {
			return in.unsafeCast(up, pt.Elem())
		}
		panic(in.unsupported("unsafe.Pointer to " + to.String()))
	}
	switch v := x.(type) {
	case *Term:
		tw, _, tok := intWidth(tu)
		_, fsigned, _ := intWidth(fu)
		if tok {
			if tw == 0 {
				return v
			}
			if v.W == 0 {
				panic(in.unsupported("bool to int conversion"))
			}
			if tw <= v.W {
				return tb.Extract(v, tw-1, 0)
			}
			if fsigned {
				return tb.Sext(v, tw)
			}
			return tb.Zext(v, tw)
		}
		if isFloat(tu) {
			return Float{"fromint"}
		}
		if isString(tu) { // string(rune)
			if v.IsConst() {
				return string(rune(sext64(v.Val, v.W)))
			}
			panic(in.unsupported("string(symbolic rune)"))
		}
	case Float:
		if isFloat(tu) {
			return v
		}
		if w, _, ok := intWidth(tu); ok && w > 0 {
			// float -> int: opaque nondeterministic value
			return in.freshVar("f2i", w)
		}
	case string, *SymStr:
		if isString(tu) {
			return v
		}
		if st, ok := tu.(*types.Slice); ok {
			b := in.strBytes(v)
			if eb, ok := st.Elem().Underlying().(*types.Basic); ok && eb.Kind() == types.Uint8 {
				a := make([]Value, len(b))
				for i, t := range b {
					a[i] = t
				}
				return Slice{A: a}
			}
			// []rune
			if s, ok := v.(string); ok {
				rs := []rune(s)
				a := make([]Value, len(rs))
				for i, r := range rs {
					a[i] = tb.Const(32, uint64(r))
				}
				return Slice{A: a}
			}
		}
	case Slice:
		if isString(tu) {
			et := fu.(*types.Slice).Elem().Underlying().(*types.Basic)
			if et.Kind() == types.Uint8 {
				b := make([]*Term, len(v.A))
				for i, e := range v.A {
					b[i] = e.(*Term)
				}
				return mkStr(b)
			}
			rs := make([]rune, len(v.A))
			for i, e := range v.A {
				t := e.(*Term)
				if !t.IsConst() {
					panic(in.unsupported("string([]rune) symbolic"))
				}
				rs[i] = rune(t.Val)
			}
			return string(rs)
		}
		if _, ok := tu.(*types.Slice); ok {
			return v
		}
	case *Value:
		if _, ok := tu.(*types.Pointer); ok {
			return v
		}
	case UnsafePtr:
		return v
	}
	if types.Identical(fu, tu) {
		return x
	}
	panic(in.unsupported(fmt.Sprintf("convert %s -> %s (%T)", from, to, x)))
}
