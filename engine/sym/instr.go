package sym

import (
	"fmt"
	"go/token"
	"go/types"
	"unicode/utf8"

	"golang.org/x/tools/go/ssa"
)

type cont int

const (
	kNext cont = iota
	kReturn
	kJump
)

func (in *Interp) nilDeref() *goPanic {
	return in.goPanic("invalid memory address or nil pointer dereference")
}

// load reads *p with value semantics.
func (in *Interp) load(p Value) Value {
	switch q := p.(type) {
	case *Value:
		if q == nil {
			panic(in.nilDeref())
		}
		return copyVal(*q)
	case UnsafePtr:
		if q.P == nil {
			panic(in.nilDeref())
		}
		return copyVal(*q.P)
	}
	panic(in.unsupported(fmt.Sprintf("load through %T", p)))
}

func (in *Interp) store(p Value, v Value) {
	q, ok := p.(*Value)
	if !ok {
		panic(in.unsupported(fmt.Sprintf("store through %T", p)))
	}
	if q == nil {
		panic(in.nilDeref())
	}
	storeInto(q, v)
}

// concretize returns a concrete value for t, forking over its feasible values.
func (in *Interp) concretize(t *Term, what string) uint64 {
	if t.IsConst() {
		return t.Val
	}
	for i := 0; ; i++ {
		if i >= in.ex.MaxConcretize {
			panic(&pathEnd{kind: "inconclusive", reason: fmt.Sprintf("concretization of %s exceeds %d values @ %s", what, in.ex.MaxConcretize, in.where())})
		}
		v := in.recorded(func() uint64 {
			r, vals, err := in.sol.ModelWith(nil, []*Term{t})
			if err != nil {
				panic(&pathEnd{kind: "inconclusive", reason: "get-value failed: " + err.Error()})
			}
			if r == Unsat {
				panic(&pathEnd{kind: "infeasible", reason: "pc unsat in concretize"})
			}
			if r == Unknown {
				panic(&pathEnd{kind: "inconclusive", reason: "solver unknown in concretize of " + what})
			}
			return vals[0]
		})
		if in.Branch(in.tb.Eq(t, in.tb.Const(t.W, v))) {
			return v
		}
	}
}

// asInt converts an integer-typed value to a 64-bit term (sign- or zero-extended).
func (in *Interp) toI64(v Value, t types.Type) *Term {
	x := v.(*Term)
	_, signed, _ := intWidth(t)
	if x.W == 64 {
		return x
	}
	if signed {
		return in.tb.Sext(x, 64)
	}
	return in.tb.Zext(x, 64)
}

// index checks 0 <= i < n and returns a concrete index.
func (in *Interp) index(iv Value, it types.Type, n int) int {
	i := in.toI64(iv, it)
	ok := in.tb.ULt(i, in.tb.Const(64, uint64(n)))
	if !in.Branch(ok) {
		panic(in.goPanic(fmt.Sprintf("index out of range [%s] with length %d", describeIdx(i), n)))
	}
	return int(in.concretize(i, "index"))
}

func describeIdx(t *Term) string {
	if t.IsConst() {
		return fmt.Sprint(int64(t.Val))
	}
	return "symbolic"
}

func (fr *frame) visit(instr ssa.Instruction) cont {
	in := fr.in
	switch instr := instr.(type) {
	case *ssa.DebugRef:
	case *ssa.UnOp:
		fr.set(instr, in.unop(fr, instr))
	case *ssa.BinOp:
		fr.set(instr, in.binop(instr.Op, instr.X.Type(), fr.get(instr.X), fr.get(instr.Y), instr.Y.Type()))
	case *ssa.Call:
		fn, args := fr.prepareCall(&instr.Call)
		var r Value
		if b, ok := fn.(*ssa.Builtin); ok {
			r = in.callBuiltin(fr, b, args, &instr.Call)
		} else {
			r = in.callValue(fn, args, fr)
		}
		fr.set(instr, r)
	case *ssa.ChangeInterface:
		fr.set(instr, fr.get(instr.X))
	case *ssa.ChangeType:
		fr.set(instr, fr.get(instr.X))
	case *ssa.Convert:
		fr.set(instr, in.convert(instr.X.Type(), instr.Type(), fr.get(instr.X)))
	case *ssa.SliceToArrayPointer:
		s := fr.get(instr.X).(Slice)
		n := int(instr.Type().(*types.Pointer).Elem().Underlying().(*types.Array).Len())
		if len(s.A) < n {
			panic(in.goPanic("cannot convert slice to array pointer: length too short"))
		}
		if s.A == nil && n == 0 {
			fr.set(instr, (*Value)(nil))
		} else {
			p := new(Value)
			*p = Array(s.A[:n:n])
			fr.set(instr, p)
		}
	case *ssa.MakeInterface:
		fr.set(instr, Iface{T: instr.X.Type(), V: fr.get(instr.X)})
	case *ssa.Extract:
		fr.set(instr, fr.get(instr.Tuple).(Tuple)[instr.Index])
	case *ssa.Slice:
		fr.set(instr, in.sliceOp(fr, instr))
	case *ssa.Return:
		switch len(instr.Results) {
		case 0:
		case 1:
			fr.result = fr.get(instr.Results[0])
		default:
			res := make(Tuple, len(instr.Results))
			for i, r := range instr.Results {
				res[i] = fr.get(r)
			}
			fr.result = res
		}
		return kReturn
	case *ssa.RunDefers:
		fr.runDefers()
	case *ssa.Panic:
		v := fr.get(instr.X)
		panic(&goPanic{v: v, msg: in.panicMsg(v), site: in.where(), stack: in.stack()})
	case *ssa.Send:
		in.chanSend(fr.get(instr.Chan), fr.get(instr.X))
	case *ssa.Store:
		in.store(fr.get(instr.Addr), fr.get(instr.Val))
	case *ssa.If:
		succ := 1
		if in.Branch(fr.get(instr.Cond).(*Term)) {
			succ = 0
		}
		fr.prev, fr.block = fr.block, fr.block.Succs[succ]
		return kJump
	case *ssa.Jump:
		fr.prev, fr.block = fr.block, fr.block.Succs[0]
		return kJump
	case *ssa.Defer:
		fn, args := fr.prepareCall(&instr.Call)
		if b, ok := fn.(*ssa.Builtin); ok {
			call := &instr.Call
			fn = &Host{Kind: "gofunc", Data: func(in *Interp, caller *frame, args []Value) Value {
				return in.callBuiltin(caller, b, args, call)
			}}
		}
		fr.defers = append(fr.defers, &deferred{fn: fn, args: args, site: in.where()})
	case *ssa.Go:
		fn, args := fr.prepareCall(&instr.Call)
		in.spawn(fr, fn, args)
	case *ssa.MakeChan:
		n := int(in.concretize(in.toI64(fr.get(instr.Size), instr.Size.Type()), "chan size"))
		fr.set(instr, &Chan{Kind: "user", Cap: n})
	case *ssa.Alloc:
		p := new(Value)
		*p = in.zero(instr.Type().(*types.Pointer).Elem())
		fr.set(instr, p)
	case *ssa.MakeSlice:
		ln := in.toI64(fr.get(instr.Len), instr.Len.Type())
		cp := in.toI64(fr.get(instr.Cap), instr.Cap.Type())
		in.allocHook(ln, instr.Type())
		n := int64(in.concretize(ln, "make len"))
		c := int64(in.concretize(cp, "make cap"))
		if n < 0 || c < n {
			panic(in.goPanic("makeslice: len out of range"))
		}
		if c > int64(in.ex.MaxAlloc) {
			panic(&pathEnd{kind: "inconclusive", reason: fmt.Sprintf("allocation of %d elements exceeds engine bound @ %s", c, in.where())})
		}
		a := make([]Value, n, c)
		et := instr.Type().Underlying().(*types.Slice).Elem()
		fillZero(in, a[:c], et)
		fr.set(instr, Slice{A: a})
	case *ssa.MakeMap:
		if instr.Reserve != nil {
			in.allocHook(in.toI64(fr.get(instr.Reserve), instr.Reserve.Type()), instr.Type())
		}
		fr.set(instr, &Map{})
	case *ssa.Range:
		fr.set(instr, in.rangeIter(fr.get(instr.X), instr.X.Type()))
	case *ssa.Next:
		fr.set(instr, fr.get(instr.Iter).(*iter).next(in))
	case *ssa.FieldAddr:
		p, ok := fr.get(instr.X).(*Value)
		if !ok {
			panic(in.unsupported(fmt.Sprintf("FieldAddr on %T", fr.get(instr.X))))
		}
		if p == nil {
			panic(in.nilDeref())
		}
		s, ok := (*p).(Struct)
		if !ok {
			panic(in.unsupported(fmt.Sprintf("FieldAddr: cell holds %T, want struct (%s)", *p, instr.X.Type())))
		}
		fr.set(instr, &s[instr.Field])
	case *ssa.Field:
		fr.set(instr, copyVal(fr.get(instr.X).(Struct)[instr.Field]))
	case *ssa.IndexAddr:
		x := fr.get(instr.X)
		switch x := x.(type) {
		case *Value:
			if x == nil {
				panic(in.nilDeref())
			}
			a := (*x).(Array)
			fr.set(instr, &a[in.index(fr.get(instr.Index), instr.Index.Type(), len(a))])
		case Slice:
			i := in.index(fr.get(instr.Index), instr.Index.Type(), len(x.A))
			fr.set(instr, &x.A[i])
			if fr.info.unsafeIdx[instr] {
				if in.elemOrigin == nil {
					in.elemOrigin = map[*Value][]Value{}
				}
				in.elemOrigin[&x.A[i]] = x.A[i:]
			}
		default:
			panic(in.unsupported(fmt.Sprintf("IndexAddr on %T", x)))
		}
	case *ssa.Index:
		x := fr.get(instr.X)
		switch x := x.(type) {
		case Array:
			fr.set(instr, copyVal(x[in.index(fr.get(instr.Index), instr.Index.Type(), len(x))]))
		case string, *SymStr:
			b := in.strBytes(x)
			fr.set(instr, b[in.index(fr.get(instr.Index), instr.Index.Type(), len(b))])
		default:
			panic(in.unsupported(fmt.Sprintf("Index on %T", x)))
		}
	case *ssa.Lookup:
		x := fr.get(instr.X)
		switch x := x.(type) {
		case *Map:
			v, ok := in.mapGet(x, fr.get(instr.Index))
			if !ok {
				v = in.zero(instr.X.Type().Underlying().(*types.Map).Elem())
			}
			v = copyVal(v)
			if instr.CommaOk {
				fr.set(instr, Tuple{v, in.tb.Bool(ok)})
			} else {
				fr.set(instr, v)
			}
		case string, *SymStr:
			b := in.strBytes(x)
			fr.set(instr, b[in.index(fr.get(instr.Index), instr.Index.Type(), len(b))])
		default:
			panic(in.unsupported(fmt.Sprintf("Lookup on %T", x)))
		}
	case *ssa.MapUpdate:
		in.mapSet(fr.get(instr.Map).(*Map), fr.get(instr.Key), copyVal(fr.get(instr.Value)))
	case *ssa.TypeAssert:
		fr.set(instr, in.typeAssert(instr, fr.get(instr.X).(Iface)))
	case *ssa.MakeClosure:
		env := make([]Value, len(instr.Bindings))
		for i, b := range instr.Bindings {
			env[i] = fr.get(b)
		}
		fr.set(instr, &Closure{Fn: instr.Fn.(*ssa.Function), Env: env})
	case *ssa.Phi:
		for i, pred := range instr.Block().Preds {
			if pred == fr.prev {
				fr.set(instr, fr.get(instr.Edges[i]))
				break
			}
		}
	case *ssa.Select:
		fr.set(instr, in.selectOp(fr, instr))
	default:
		panic(in.unsupported(fmt.Sprintf("instruction %T", instr)))
	}
	return kNext
}

func fillZero(in *Interp, a []Value, et types.Type) {
	if len(a) == 0 {
		return
	}
	z := in.zero(et)
	switch z.(type) {
	case Struct, Array:
		a[0] = z
		for i := 1; i < len(a); i++ {
			a[i] = in.zero(et)
		}
	default:
		for i := range a {
			a[i] = z
		}
	}
}

func (in *Interp) panicMsg(v Value) string {
	if ifc, ok := v.(Iface); ok {
		switch x := ifc.V.(type) {
		case string:
			return x
		case *Term:
			return x.String()
		}
		if ifc.T != nil {
			// error values: try Error()
			if m := in.lookupMethod(ifc.T, "Error"); m != nil {
				func() {
					defer func() {
						if r := recover(); r != nil {
							if pe, ok := r.(*pathEnd); ok {
								panic(pe)
							}
						}
					}()
					if s, ok := in.callFunction(m, []Value{ifc.V}, nil, in.top).(string); ok {
						v = s
					}
				}()
				if s, ok := v.(string); ok {
					return s
				}
			}
			return "panic(" + ifc.T.String() + ")"
		}
	}
	return describe(v)
}

func (in *Interp) sliceOp(fr *frame, instr *ssa.Slice) Value {
	x := fr.get(instr.X)
	geti := func(v ssa.Value, def int) int {
		if v == nil {
			return def
		}
		t := in.toI64(fr.get(v), v.Type())
		return int(int64(in.concretizeBounded(t, "slice bound")))
	}
	switch x := x.(type) {
	case string, *SymStr:
		b := in.strBytes(x)
		lo := geti(instr.Low, 0)
		hi := geti(instr.High, len(b))
		if lo < 0 || hi < lo || hi > len(b) {
			panic(in.goPanic(fmt.Sprintf("slice bounds out of range [%d:%d] with length %d", lo, hi, len(b))))
		}
		if s, ok := x.(string); ok {
			return s[lo:hi]
		}
		return mkStr(b[lo:hi])
	case Slice:
		lo := geti(instr.Low, 0)
		hi := geti(instr.High, len(x.A))
		max := geti(instr.Max, cap(x.A))
		if lo < 0 || hi < lo || max < hi || max > cap(x.A) {
			panic(in.goPanic(fmt.Sprintf("slice bounds out of range [%d:%d:%d] with capacity %d", lo, hi, max, cap(x.A))))
		}
		if x.A == nil {
			return Slice{}
		}
		return Slice{A: x.A[lo:hi:max]}
	case *Value:
		if x == nil {
			panic(in.nilDeref())
		}
		a := []Value((*x).(Array))
		lo := geti(instr.Low, 0)
		hi := geti(instr.High, len(a))
		max := geti(instr.Max, len(a))
		if lo < 0 || hi < lo || max < hi || max > len(a) {
			panic(in.goPanic(fmt.Sprintf("slice bounds out of range [%d:%d:%d] with length %d", lo, hi, max, len(a))))
		}
		if a == nil {
			a = []Value{}
		}
		return Slice{A: a[lo:hi:max]}
	}
	panic(in.unsupported(fmt.Sprintf("slice of %T", x)))
}

// concretizeBounded concretizes a slice bound; it first checks that the value
// cannot be absurdly large (which would make enumeration pointless) by letting
// the bounds check fail symbolically.
func (in *Interp) concretizeBounded(t *Term, what string) uint64 {
	if t.IsConst() {
		return t.Val
	}
	// values above engine bound lead to the bounds-check panic in all callers
	lim := in.tb.Const(64, uint64(in.ex.MaxAlloc))
	if !in.Branch(in.tb.ULe(t, lim)) {
		panic(in.goPanic("slice bounds out of range (symbolic bound beyond any capacity)"))
	}
	return in.concretize(t, what)
}

func (in *Interp) typeAssert(instr *ssa.TypeAssert, x Iface) Value {
	at := instr.AssertedType
	var ok bool
	var v Value
	if iface, isI := at.Underlying().(*types.Interface); isI {
		if x.T != nil {
			if h, isH := x.V.(*Host); isH && h.Kind == "dummy" {
				ok = true
			} else {
				ok = types.Implements(x.T, iface)
			}
		}
		if ok {
			v = x
		}
	} else {
		ok = x.T != nil && types.Identical(x.T, at)
		if ok {
			v = copyVal(x.V)
		}
	}
	if instr.CommaOk {
		if !ok {
			v = in.zero(at)
		}
		return Tuple{v, in.tb.Bool(ok)}
	}
	if !ok {
		from := "nil"
		if x.T != nil {
			from = x.T.String()
		}
		panic(in.goPanic(fmt.Sprintf("interface conversion: interface is %s, not %s", from, at)))
	}
	return v
}

// ---- range iterators ----

type iter struct {
	m     *Map
	i     int
	str   []*Term
	isStr bool
	kt    types.Type
}

func (in *Interp) rangeIter(x Value, t types.Type) Value {
	switch x := x.(type) {
	case *Map:
		return &iter{m: x}
	case string, *SymStr:
		return &iter{str: in.strBytes(x), isStr: true}
	}
	panic(in.unsupported(fmt.Sprintf("range over %T", x)))
}

func (it *iter) next(in *Interp) Value {
	if it.isStr {
		if it.i >= len(it.str) {
			return Tuple{in.tb.F, in.tb.Const(64, 0), in.tb.Const(32, 0)}
		}
		// decode one rune; requires concrete leading byte unless ASCII-assumable
		b0 := it.str[it.i]
		if !b0.IsConst() {
			// fork on ASCII vs not
			if in.Branch(in.tb.ULt(b0, in.tb.Const(8, 0x80))) {
				r := Tuple{in.tb.T, in.tb.Const(64, uint64(it.i)), in.tb.Zext(b0, 32)}
				it.i++
				return r
			}
			panic(in.unsupported("range over symbolic non-ASCII string"))
		}
		bs := []byte{}
		for j := it.i; j < len(it.str) && j < it.i+4; j++ {
			if !it.str[j].IsConst() {
				break
			}
			bs = append(bs, byte(it.str[j].Val))
		}
		r, n := utf8.DecodeRune(bs)
		res := Tuple{in.tb.T, in.tb.Const(64, uint64(it.i)), in.tb.Const(32, uint64(r))}
		it.i += n
		return res
	}
	m := it.m
	if m != nil {
		for it.i < len(m.Keys) {
			i := it.i
			it.i++
			if m.Live[i] {
				return Tuple{in.tb.T, m.Keys[i], copyVal(m.Vals[i])}
			}
		}
	}
	return Tuple{in.tb.F, nil, nil}
}

var _ = token.NoPos
