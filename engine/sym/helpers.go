package sym

import (
	"fmt"
	"go/types"
	"strings"

	"golang.org/x/tools/go/ssa"
)

// ---- encoding/binary support (by static type, no reflection) ----

func (in *Interp) binLayout(t types.Type) ([]int, bool) {
	switch u := t.Underlying().(type) {
	case *types.Basic:
		if w, _, ok := intWidth(u); ok {
			if w == 0 {
				return []int{8}, true
			}
			return []int{w}, true
		}
	case *types.Array:
		el, ok := in.binLayout(u.Elem())
		if !ok {
			return nil, false
		}
		var out []int
		for i := int64(0); i < u.Len(); i++ {
			out = append(out, el...)
		}
		return out, true
	case *types.Struct:
		var out []int
		for i := 0; i < u.NumFields(); i++ {
			el, ok := in.binLayout(u.Field(i).Type())
			if !ok {
				return nil, false
			}
			out = append(out, el...)
		}
		return out, true
	}
	return nil, false
}

// binSize returns the encoded size of data (pointer to fixed-size value, fixed
// size value, or slice of such), or -1.
func (in *Interp) binSize(data Iface) int {
	if data.T == nil {
		return -1
	}
	t := data.T
	if p, ok := t.Underlying().(*types.Pointer); ok {
		t = p.Elem()
	}
	if s, ok := t.Underlying().(*types.Slice); ok {
		el, ok := in.binLayout(s.Elem())
		if !ok {
			return -1
		}
		n := 0
		for _, w := range el {
			n += w / 8
		}
		return n * len(data.V.(Slice).A)
	}
	lay, ok := in.binLayout(t)
	if !ok {
		return -1
	}
	n := 0
	for _, w := range lay {
		n += w / 8
	}
	return n
}

func (in *Interp) leaves(v Value, out *[]*Value, p *Value) {
	switch x := (*p).(type) {
	case Struct:
		for i := range x {
			in.leaves(nil, out, &x[i])
		}
	case Array:
		for i := range x {
			in.leaves(nil, out, &x[i])
		}
	default:
		*out = append(*out, p)
	}
}

func (in *Interp) binDecode(bs []Value, big bool, data Iface) {
	var cells []*Value
	switch d := data.V.(type) {
	case *Value:
		in.leaves(nil, &cells, d)
	case Slice:
		for i := range d.A {
			in.leaves(nil, &cells, &d.A[i])
		}
	default:
		panic(in.unsupported(fmt.Sprintf("binary.Read into %T", data.V)))
	}
	off := 0
	for _, c := range cells {
		t := (*c).(*Term)
		w := t.W
		if w == 0 {
			b := bs[off].(*Term)
			*c = in.tb.Not(in.tb.Eq(b, in.tb.Const(8, 0)))
			off++
			continue
		}
		n := w / 8
		parts := make([]*Term, n)
		for i := 0; i < n; i++ {
			if big {
				parts[i] = bs[off+i].(*Term)
			} else {
				parts[i] = bs[off+n-1-i].(*Term)
			}
		}
		*c = in.tb.Concat(parts...)
		off += n
	}
}

func (in *Interp) binEncode(big bool, data Iface) []Value {
	var cells []*Value
	v := data.V
	switch d := v.(type) {
	case *Value:
		in.leaves(nil, &cells, d)
	case Slice:
		for i := range d.A {
			in.leaves(nil, &cells, &d.A[i])
		}
	default:
		tmp := new(Value)
		*tmp = copyVal(v)
		in.leaves(nil, &cells, tmp)
	}
	var out []Value
	for _, c := range cells {
		t, ok := (*c).(*Term)
		if !ok {
			panic(in.unsupported(fmt.Sprintf("binary.Write of %T", *c)))
		}
		if t.W == 0 {
			out = append(out, in.tb.BoolToBV(t, 8))
			continue
		}
		n := t.W / 8
		for i := 0; i < n; i++ {
			var hi int
			if big {
				hi = t.W - 1 - 8*i
			} else {
				hi = 8*i + 7
			}
			out = append(out, in.tb.Extract(t, hi, hi-7))
		}
	}
	return out
}

// ---- fmt support ----

// native converts a value to a Go value usable by fmt, best effort.
func (in *Interp) native(v Value, t types.Type) interface{} {
	switch x := v.(type) {
	case *Term:
		if !x.IsConst() {
			return "<sym>"
		}
		if x.W == 0 {
			return x.Val == 1
		}
		_, signed, _ := intWidth(t)
		if signed {
			return sext64(x.Val, x.W)
		}
		return x.Val
	case string:
		return x
	case *SymStr:
		return "<symstr>"
	case Iface:
		if x.T == nil {
			return nil
		}
		return in.nativeIface(x)
	case Slice:
		if _, ok := t.Underlying().(*types.Slice); ok {
			allc := true
			bs := make([]byte, len(x.A))
			for i, e := range x.A {
				tm, ok := e.(*Term)
				if !ok || !tm.IsConst() || tm.W != 8 {
					allc = false
					break
				}
				bs[i] = byte(tm.Val)
			}
			if allc {
				return bs
			}
		}
		return "<slice>"
	case *Value:
		if x == nil {
			return nil
		}
		return "<ptr>"
	}
	return fmt.Sprintf("<%T>", v)
}

func (in *Interp) nativeIface(x Iface) interface{} {
	// Stringer / error: call the method when it can run concretely.
	for _, mname := range []string{"Error", "String"} {
		ms := in.prog.MethodSets.MethodSet(x.T)
		sel := ms.Lookup(nil, mname)
		if sel == nil {
			continue
		}
		sig, ok := sel.Type().(*types.Signature)
		if !ok || sig.Params().Len() != 0 || sig.Results().Len() != 1 || !isString(sig.Results().At(0).Type()) {
			continue
		}
		m := in.prog.MethodValue(sel)
		if m == nil {
			continue
		}
		var res Value
		func() {
			defer func() {
				if r := recover(); r != nil {
					if _, ok := r.(*goPanic); ok {
						res = "<panic in " + mname + ">"
						return
					}
					panic(r)
				}
			}()
			res = in.callFunction(m, []Value{x.V}, nil, in.top)
		}()
		if s, ok := res.(string); ok {
			return s
		}
		return "<symbolic " + mname + ">"
	}
	return in.native(x.V, x.T)
}

func (in *Interp) sprintf(format string, args []Value) Value {
	nat := make([]interface{}, len(args))
	for i, a := range args {
		ifc := a.(Iface)
		if ifc.T == nil {
			nat[i] = nil
		} else {
			nat[i] = in.nativeIface(ifc)
		}
	}
	format = strings.ReplaceAll(format, "%w", "%v")
	s := fmt.Sprintf(format, nat...)
	return s
}

// ---- errors.As ----

func (in *Interp) errorsAs(fr *frame, err Iface, target Iface) Value {
	if target.T == nil {
		panic(in.goPanic("errors: target cannot be nil"))
	}
	pt, ok := target.T.Underlying().(*types.Pointer)
	if !ok {
		panic(in.goPanic("errors: target must be a non-nil pointer"))
	}
	tt := pt.Elem()
	cell := target.V.(*Value)
	for depth := 0; err.T != nil && depth < 32; depth++ {
		match := false
		if ti, ok := tt.Underlying().(*types.Interface); ok {
			match = types.Implements(err.T, ti)
			if match {
				storeInto(cell, err)
				return in.tb.T
			}
		} else if types.Identical(err.T, tt) {
			storeInto(cell, err.V)
			return in.tb.T
		}
		// Unwrap
		m := in.lookupMethod(err.T, "Unwrap")
		if m == nil {
			return in.tb.F
		}
		if m.Signature.Results().Len() != 1 {
			return in.tb.F
		}
		r := in.callFunction(m, []Value{err.V}, nil, fr)
		next, ok := r.(Iface)
		if !ok {
			return in.tb.F // Unwrap() []error not supported: treated as no match
		}
		err = next
	}
	return in.tb.F
}

// ---- sort.Slice (insertion sort driving the real less closure) ----

func (in *Interp) sortSlice(fr *frame, x Iface, less Value) {
	s, ok := x.V.(Slice)
	if !ok {
		panic(in.unsupported("sort.Slice on non-slice"))
	}
	a := s.A
	for i := 1; i < len(a); i++ {
		for j := i; j > 0; j-- {
			r := in.callValue(less, []Value{in.tb.Const(64, uint64(j)), in.tb.Const(64, uint64(j-1))}, fr).(*Term)
			if !in.Branch(r) {
				break
			}
			a[j], a[j-1] = a[j-1], a[j]
		}
	}
}

// ---- unsafe ----

// unsafeCast reinterprets an unsafe.Pointer as *elem.
func (in *Interp) unsafeCast(up UnsafePtr, elem types.Type) Value {
	if up.P == nil {
		return (*Value)(nil)
	}
	if up.Elem != nil && types.Identical(up.Elem, elem) {
		return up.P
	}
	// pointer-to-struct <-> pointer-to-struct: identity (used by the file
	// model to hand out *os.File handles).
	_, toStruct := elem.Underlying().(*types.Struct)
	if up.Elem != nil {
		if _, fromStruct := up.Elem.Underlying().(*types.Struct); fromStruct && toStruct {
			if _, isArr := elem.Underlying().(*types.Array); !isArr {
				return up.P
			}
		}
	}
	// byte-level reinterpretation as a snapshot copy (no aliasing): supported
	// between byte storage and fixed-layout integer structs/arrays.
	srcBytes := in.flatBytes(up)
	if srcBytes == nil {
		panic(in.unsupported(fmt.Sprintf("unsafe cast %v -> %s", up.Elem, elem)))
	}
	lay, ok := in.binLayout(elem)
	if !ok {
		panic(in.unsupported("unsafe cast to " + elem.String()))
	}
	need := 0
	for _, w := range lay {
		need += w / 8
	}
	if len(srcBytes) < need {
		panic(in.unsupported("unsafe cast beyond object"))
	}
	p := new(Value)
	*p = in.zero(elem)
	bs := make([]Value, need)
	for i := range bs {
		bs[i] = srcBytes[i]
	}
	in.binDecodePadded(bs, p, elem)
	in.note("unsafe cast modelled as snapshot copy: " + elem.String())
	return p
}

// flatBytes serialises the object behind up into little-endian bytes with
// natural alignment padding.
func (in *Interp) flatBytes(up UnsafePtr) []*Term {
	if up.Arr != nil {
		out := make([]*Term, 0, len(up.Arr))
		for _, v := range up.Arr {
			t, ok := v.(*Term)
			if !ok || t.W != 8 {
				return nil
			}
			out = append(out, t)
		}
		return out
	}
	if up.Elem == nil {
		return nil
	}
	var out []*Term
	if !in.serialize(*up.P, up.Elem, &out) {
		return nil
	}
	return out
}

func alignOf(t types.Type) int {
	switch u := t.Underlying().(type) {
	case *types.Basic:
		if w, _, ok := intWidth(u); ok {
			if w == 0 {
				return 1
			}
			return w / 8
		}
	case *types.Array:
		return alignOf(u.Elem())
	case *types.Struct:
		a := 1
		for i := 0; i < u.NumFields(); i++ {
			if x := alignOf(u.Field(i).Type()); x > a {
				a = x
			}
		}
		return a
	}
	return 8
}

func (in *Interp) serialize(v Value, t types.Type, out *[]*Term) bool {
	pad := func(al int) {
		for len(*out)%al != 0 {
			*out = append(*out, in.tb.Const(8, 0))
		}
	}
	switch u := t.Underlying().(type) {
	case *types.Basic:
		x, ok := v.(*Term)
		if !ok {
			return false
		}
		if x.W == 0 {
			*out = append(*out, in.tb.BoolToBV(x, 8))
			return true
		}
		pad(x.W / 8)
		for i := 0; i < x.W/8; i++ {
			*out = append(*out, in.tb.Extract(x, 8*i+7, 8*i))
		}
		return true
	case *types.Array:
		a := v.(Array)
		for _, e := range a {
			if !in.serialize(e, u.Elem(), out) {
				return false
			}
		}
		return true
	case *types.Struct:
		s := v.(Struct)
		pad(alignOf(t))
		for i := range s {
			if !in.serialize(s[i], u.Field(i).Type(), out) {
				return false
			}
		}
		pad(alignOf(t))
		return true
	}
	return false
}

// binDecodePadded fills *p (of type t) from little-endian bytes with padding.
func (in *Interp) binDecodePadded(bs []Value, p *Value, t types.Type) {
	off := 0
	var rec func(c *Value, t types.Type)
	rec = func(c *Value, t types.Type) {
		switch u := t.Underlying().(type) {
		case *types.Basic:
			x := (*c).(*Term)
			if x.W == 0 {
				*c = in.tb.Not(in.tb.Eq(bs[off].(*Term), in.tb.Const(8, 0)))
				off++
				return
			}
			n := x.W / 8
			for off%n != 0 {
				off++
			}
			parts := make([]*Term, n)
			for i := 0; i < n; i++ {
				parts[i] = bs[off+n-1-i].(*Term)
			}
			*c = in.tb.Concat(parts...)
			off += n
		case *types.Array:
			a := (*c).(Array)
			for i := range a {
				rec(&a[i], u.Elem())
			}
		case *types.Struct:
			s := (*c).(Struct)
			al := alignOf(t)
			for off%al != 0 {
				off++
			}
			for i := range s {
				rec(&s[i], u.Field(i).Type())
			}
			for off%al != 0 {
				off++
			}
		}
	}
	rec(p, t)
}

// lookupMethod returns the exported method name of dynamic type t, or nil.
func (in *Interp) lookupMethod(t types.Type, name string) *ssa.Function {
	sel := in.prog.MethodSets.MethodSet(t).Lookup(nil, name)
	if sel == nil {
		return nil
	}
	return in.prog.MethodValue(sel)
}
