package sym

import (
	"fmt"
	"go/types"
	"strings"

	"golang.org/x/tools/go/ssa"
)

func (in *Interp) callBuiltin(fr *frame, b *ssa.Builtin, args []Value, call *ssa.CallCommon) Value {
	tb := in.tb
	switch b.Name() {
	case "append":
		if len(args) == 1 {
			return args[0]
		}
		dst := args[0].(Slice)
		var src []Value
		switch s := args[1].(type) {
		case Slice:
			src = s.A
		case string, *SymStr:
			for _, t := range in.strBytes(s) {
				src = append(src, t)
			}
		default:
			panic(in.unsupported(fmt.Sprintf("append of %T", s)))
		}
		if len(src) == 0 {
			return dst
		}
		n := len(dst.A) + len(src)
		var out []Value
		if n <= cap(dst.A) {
			out = dst.A[:n]
		} else {
			c := 2 * cap(dst.A)
			if c < n {
				c = n
			}
			if c < 4 {
				c = 4
			}
			out = make([]Value, n, c)
			copy(out, dst.A)
			// zero-fill spare capacity lazily: elements beyond len are only
			// reachable via reslicing; fill with typed zeros.
			if call != nil {
				if st, ok := call.Args[0].Type().Underlying().(*types.Slice); ok {
					fillZero(in, out[n:c], st.Elem())
				}
			}
		}
		for i, v := range src {
			out[len(dst.A)+i] = copyVal(v)
		}
		return Slice{A: out}
	case "copy":
		dst := args[0].(Slice)
		var src []Value
		switch s := args[1].(type) {
		case Slice:
			src = s.A
		case string, *SymStr:
			for _, t := range in.strBytes(s) {
				src = append(src, t)
			}
		}
		n := len(dst.A)
		if len(src) < n {
			n = len(src)
		}
		// memmove semantics
		tmp := make([]Value, n)
		for i := 0; i < n; i++ {
			tmp[i] = copyVal(src[i])
		}
		copy(dst.A, tmp)
		return tb.Const(64, uint64(n))
	case "len":
		switch x := args[0].(type) {
		case string:
			return tb.Const(64, uint64(len(x)))
		case *SymStr:
			return tb.Const(64, uint64(len(x.B)))
		case Slice:
			return tb.Const(64, uint64(len(x.A)))
		case Array:
			return tb.Const(64, uint64(len(x)))
		case *Value: // pointer to array
			if x == nil {
				return tb.Const(64, uint64(call.Args[0].Type().Underlying().(*types.Pointer).Elem().Underlying().(*types.Array).Len()))
			}
			return tb.Const(64, uint64(len((*x).(Array))))
		case *Map:
			if x == nil {
				return tb.Const(64, 0)
			}
			return tb.Const(64, uint64(x.N))
		case *Chan:
			if x == nil {
				return tb.Const(64, 0)
			}
			return tb.Const(64, uint64(len(x.Buf)))
		}
	case "cap":
		switch x := args[0].(type) {
		case Slice:
			return tb.Const(64, uint64(cap(x.A)))
		case Array:
			return tb.Const(64, uint64(len(x)))
		case *Value:
			return tb.Const(64, uint64(len((*x).(Array))))
		case *Chan:
			return tb.Const(64, uint64(x.Cap))
		}
	case "delete":
		in.mapDelete(args[0].(*Map), args[1])
		return nil
	case "clear":
		switch x := args[0].(type) {
		case *Map:
			if x != nil {
				for i := range x.Live {
					x.Live[i] = false
				}
				x.N = 0
			}
		case Slice:
			et := call.Args[0].Type().Underlying().(*types.Slice).Elem()
			fillZero(in, x.A, et)
		}
		return nil
	case "print", "println":
		return nil
	case "recover":
		return in.doRecover(fr)
	case "close":
		c := args[0].(*Chan)
		if c == nil {
			panic(in.goPanic("close of nil channel"))
		}
		if c.Closed {
			panic(in.goPanic("close of closed channel"))
		}
		c.Closed = true
		in.wakeParked(fr)
		return nil
	case "min", "max":
		acc := args[0].(*Term)
		_, signed, _ := intWidth(call.Args[0].Type())
		for _, a := range args[1:] {
			x := a.(*Term)
			var lt *Term
			if signed {
				lt = tb.SLt(x, acc)
			} else {
				lt = tb.ULt(x, acc)
			}
			if b.Name() == "max" {
				lt = tb.Not(tb.Or(lt, tb.Eq(x, acc)))
			}
			acc = tb.Ite(lt, x, acc)
		}
		return acc
	case "ssa:wrapnilchk":
		if p, ok := args[0].(*Value); ok && p == nil {
			panic(in.goPanic("value method called using nil pointer"))
		}
		return args[0]
	}
	panic(in.unsupported("builtin " + b.Name() + fmt.Sprintf(" on %T", args[0])))
}

// doRecover implements recover(): it only stops a panic when called directly
// by a deferred function of the panicking frame.
func (in *Interp) doRecover(fr *frame) Value {
	// fr is the frame executing recover(); its caller is the panicking frame.
	if fr != nil && fr.caller != nil && fr.caller.panicking {
		c := fr.caller
		c.panicking = false
		gp := c.panicVal
		c.panicVal = nil
		if ifc, ok := gp.v.(Iface); ok {
			return ifc
		}
		return Iface{T: types.Typ[types.String], V: gp.msg}
	}
	return Iface{}
}

// ---- channels, select, goroutines (abstract) ----

func (in *Interp) chanSend(c Value, v Value) {
	ch := c.(*Chan)
	if ch == nil {
		panic(&pathEnd{kind: "inconclusive", reason: "send on nil channel blocks forever @ " + in.where()})
	}
	if ch.Closed {
		panic(in.goPanic("send on closed channel"))
	}
	if ch.Kind != "user" {
		panic(in.unsupported("send on abstract channel"))
	}
	// A send that would block cannot be represented (A-EAGERGO): buffered
	// channels accept up to their capacity, unbuffered ones queue one value for a
	// later receive in the same goroutine-less execution.
	if ch.Cap > 0 && len(ch.Buf) >= ch.Cap {
		panic(&pathEnd{kind: "inconclusive", reason: "send on full channel would block (no scheduler) @ " + in.where()})
	}
	ch.Buf = append(ch.Buf, v)
	in.wakeParked(in.top)
}

func (in *Interp) chanRecv(c Value, t types.Type) (Value, bool) {
	ch := c.(*Chan)
	elem := func() Value { return in.zero(t.Underlying().(*types.Chan).Elem()) }
	if ch == nil {
		panic(&pathEnd{kind: "inconclusive", reason: "receive on nil channel blocks forever @ " + in.where()})
	}
	if h, ok := chanHooks[ch.Kind]; ok {
		return h(in, ch, t, true)
	}
	if len(ch.Buf) > 0 {
		v := ch.Buf[0]
		ch.Buf = ch.Buf[1:]
		return v, true
	}
	if ch.Closed {
		return elem(), false
	}
	if in.inGoroutine > 0 {
		panic(&pathEnd{kind: "infeasible", reason: "goroutine blocked in receive", blocked: true})
	}
	panic(&pathEnd{kind: "inconclusive", reason: "receive on empty channel would block (no scheduler) @ " + in.where()})
}

// chanHooks lets abstract channel kinds define readiness: returns (value, ok);
// when commit is false the hook must only report readiness via in.chanReady.
var chanHooks = map[string]func(in *Interp, ch *Chan, t types.Type, commit bool) (Value, bool){}

// chanReadyHooks report whether an abstract channel is ready (symbolic Bool).
var chanReadyHooks = map[string]func(in *Interp, ch *Chan) *Term{}

func (in *Interp) selectOp(fr *frame, instr *ssa.Select) Value {
	tb := in.tb
	// result tuple: (index int, recvOk bool, r_0 T_0, ... r_n-1 T_n-1)
	nrecv := 0
	for _, st := range instr.States {
		if st.Dir == types.RecvOnly {
			nrecv++
		}
	}
	mk := func(idx int, ok bool, recvIdx int, v Value) Value {
		res := make(Tuple, 2+nrecv)
		res[0] = tb.Const(64, uint64(int64(idx)))
		res[1] = tb.Bool(ok)
		ri := 0
		for _, st := range instr.States {
			if st.Dir == types.RecvOnly {
				res[2+ri] = in.zero(st.Chan.Type().Underlying().(*types.Chan).Elem())
				if ri == recvIdx && v != nil {
					res[2+ri] = v
				}
				ri++
			}
		}
		return res
	}
	nd, _ := in.hostState["selectnondet"].(bool)
	if b, ok := in.hostState["selectbudget"].(int); ok && nd {
		// bounded unfairness: only the first b selects choose freely, later ones take the first ready case
		if b <= 0 {
			nd = false
		} else {
			in.hostState["selectbudget"] = b - 1
		}
	}
	if nd {
		// evaluate the readiness of every case (this also lets model channels observe the poll),
		// then explore each ready case
		var readyIdx []int
		for i, st := range instr.States {
			ch, _ := fr.get(st.Chan).(*Chan)
			if ch == nil {
				continue
			}
			var ready *Term
			if h, ok := chanReadyHooks[ch.Kind]; ok {
				ready = h(in, ch)
			} else if st.Dir == types.RecvOnly {
				ready = tb.Bool(len(ch.Buf) > 0 || ch.Closed)
			} else {
				ready = tb.Bool(len(ch.Buf) < ch.Cap)
			}
			if in.Branch(ready) {
				readyIdx = append(readyIdx, i)
			}
		}
		// A one-shot timer created for this very wait (time.After(d), d > 0) cannot have fired yet: when
		// another case is ready now, Go's select takes that one. Without this rule the model would let a
		// fresh timer overtake an already closed channel, which no real schedule does.
		if len(readyIdx) > 1 {
			var firm []int
			for _, i := range readyIdx {
				ch := fr.get(instr.States[i].Chan).(*Chan)
				if !in.modelDeferrable(ch) {
					firm = append(firm, i)
				}
			}
			if len(firm) > 0 && len(firm) < len(readyIdx) {
				readyIdx = firm
			}
		}
		if len(readyIdx) > 0 {
			i := readyIdx[in.Choose(len(readyIdx))]
			st := instr.States[i]
			ch := fr.get(st.Chan).(*Chan)
			rix := -1
			for j := 0; j <= i; j++ {
				if instr.States[j].Dir == types.RecvOnly {
					rix++
				}
			}
			if st.Dir == types.RecvOnly {
				in.hostState["selectcommit"] = true
				v, ok := in.chanRecv(ch, st.Chan.Type())
				delete(in.hostState, "selectcommit")
				return mk(i, ok, rix, v)
			}
			in.chanSend(ch, fr.get(st.Send))
			return mk(i, false, -1, nil)
		}
		if !instr.Blocking {
			return mk(-1, false, -1, nil)
		}
		if in.inGoroutine > 0 {
			panic(&pathEnd{kind: "infeasible", reason: "goroutine blocked in select", blocked: true})
		}
		panic(&pathEnd{kind: "infeasible", reason: "select would block forever"})
	}
	ri := -1
	for i, st := range instr.States {
		if st.Dir == types.RecvOnly {
			ri++
		}
		ch, _ := fr.get(st.Chan).(*Chan)
		if ch == nil {
			continue // nil channel: never ready
		}
		var ready *Term
		if h, ok := chanReadyHooks[ch.Kind]; ok {
			ready = h(in, ch)
		} else if st.Dir == types.RecvOnly {
			ready = tb.Bool(len(ch.Buf) > 0 || ch.Closed)
		} else {
			ready = tb.Bool(len(ch.Buf) < ch.Cap) // unbuffered sends have no waiting receiver in this model
		}
		if in.Branch(ready) {
			if st.Dir == types.RecvOnly {
				v, ok := in.chanRecv(ch, st.Chan.Type())
				return mk(i, ok, ri, v)
			}
			in.chanSend(ch, fr.get(st.Send))
			return mk(i, false, -1, nil)
		}
	}
	if !instr.Blocking {
		return mk(-1, false, -1, nil)
	}
	if in.inGoroutine > 0 {
		panic(&pathEnd{kind: "infeasible", reason: "goroutine blocked in select", blocked: true})
	}
	// give parked goroutines a chance to make a case ready
	if len(in.parked) > 0 && !in.selectRetry {
		in.selectRetry = true
		in.wakeParked(fr)
		in.selectRetry = false
		return in.selectOp(fr, instr)
	}
	panic(&pathEnd{kind: "infeasible", reason: "select would block forever"})
}

// spawn handles a go statement (A-EAGERGO): the goroutine body is run to
// completion at the spawn point unless the explorer is configured to skip it.
func (in *Interp) spawn(fr *frame, fn Value, args []Value) {
	name := ""
	switch f := fn.(type) {
	case *ssa.Function:
		name = f.String()
	case *Closure:
		name = f.Fn.String()
	}
	if in.ex.skipGo(name) {
		in.note("go statement skipped: " + name)
		return
	}
	if !in.runGoroutine(fr, fn, args) {
		in.parked = append(in.parked, parkedGo{fn: fn, args: args, name: name})
		in.note("goroutine parked at its first blocking operation: " + name)
	}
}

type parkedGo struct {
	fn   Value
	args []Value
	name string
}

// runGoroutine runs a goroutine body to completion; it returns false when the
// body blocks (the body is then re-run from the start at a later scheduling
// point: sound for bodies that do nothing before their first blocking operation).
func (in *Interp) runGoroutine(fr *frame, fn Value, args []Value) (done bool) {
	saveTop, saveDepth := in.top, in.depth
	in.inGoroutine++
	defer func() {
		in.inGoroutine--
		if r := recover(); r != nil {
			if pe, ok := r.(*pathEnd); ok && pe.blocked {
				in.top, in.depth = saveTop, saveDepth
				done = false
				return
			}
			panic(r)
		}
	}()
	in.callValue(fn, args, fr)
	return true
}

// wakeParked retries parked goroutines (after a channel was closed or written).
func (in *Interp) wakeParked(fr *frame) {
	if len(in.parked) == 0 || in.inGoroutine > 0 {
		return
	}
	pending := in.parked
	in.parked = nil
	for _, g := range pending {
		if !in.runGoroutine(fr, g.fn, g.args) {
			in.parked = append(in.parked, g)
		}
	}
}

// laterReady reports whether a case after i is certainly ready (concretely).
func (in *Interp) laterReady(fr *frame, instr *ssa.Select, i int) bool {
	for j := i + 1; j < len(instr.States); j++ {
		st := instr.States[j]
		ch, _ := fr.get(st.Chan).(*Chan)
		if ch == nil {
			continue
		}
		if h, ok := chanReadyHooks[ch.Kind]; ok {
			if ch.Kind == "model" {
				// model channels: ask without side effects only for timers (always ready)
				if owner, ok := ch.Data.(Iface); ok && owner.T != nil && strings.Contains(owner.T.String(), "tickModel") {
					return true
				}
				continue
			}
			if r := h(in, ch); r.IsTrue() {
				return true
			}
			continue
		}
		if st.Dir == types.RecvOnly {
			if len(ch.Buf) > 0 || ch.Closed {
				return true
			}
		} else if len(ch.Buf) < ch.Cap {
			return true
		}
	}
	return false
}
