package sym

import (
	"runtime"
	"fmt"
	"go/constant"
	"go/token"
	"go/types"
	"strings"

	"golang.org/x/tools/go/ssa"
)

// pathEnd is thrown (as a Go panic) to finish the current path.
type pathEnd struct {
	kind    string // "done", "infeasible", "violation", "inconclusive"
	reason  string
	blocked bool // a goroutine body reached a blocking operation
}

// goPanic is a panic of the interpreted program.
type goPanic struct {
	v     Value
	msg   string
	site  string
	stack string
}

type unsupportedErr struct{ msg string }

func (in *Interp) unsupported(msg string) *pathEnd {
	return &pathEnd{kind: "inconclusive", reason: "unsupported: " + msg + " @ " + in.where() + " [" + in.stack() + "]"}
}

type fnInfo struct {
	idx map[ssa.Value]int
	n   int
	fv  map[*ssa.FreeVar]int
	unsafeIdx map[*ssa.IndexAddr]bool
	track bool
}

type deferred struct {
	fn   Value
	args []Value
	site string
}

type frame struct {
	in        *Interp
	caller    *frame
	fn        *ssa.Function
	info      *fnInfo
	locals    []Value
	env       []Value
	block     *ssa.BasicBlock
	prev      *ssa.BasicBlock
	defers    []*deferred
	result    Value
	panicking bool
	panicVal  *goPanic
	visits    []int32
	cur       ssa.Instruction
	depth     int
}

// Interp executes one path at a time.
type Interp struct {
	prog *ssa.Program
	tb   *TB
	sol  *Solver
	ex   *Explorer

	fnInfos map[*ssa.Function]*fnInfo
	consts  map[*ssa.Const]Value

	// per-path state
	globals    map[*ssa.Global]*Value
	pkgInit    map[*ssa.Package]bool
	path       *pathState
	top        *frame
	depth      int
	steps      int64
	nondetSeq  map[string]int
	stubs      map[string]Value // per-path runtime stubs (verifrt.Stub)
	hostState  map[string]interface{}
	allocBytes int64
	elemOrigin map[*Value][]Value
	funcsSeen  map[*ssa.Function]bool
	tolerant   int
	needsInit  map[*ssa.Package]map[*ssa.Global]bool
	parked     []parkedGo
	inGoroutine int
	selectRetry bool
	loopBound  int32
	patched    map[*ssa.Global]bool

	// results of the path
	blocks int64
}

type pathState struct {
	prefix []uint64
	trace  []uint64
	pc     []*Term
	vars   []*Term // nondet variables in creation order
	varTag []string
	choices []uint64
	unchecked bool
	choiceTags []string
	pcSet     map[uint32]bool
	nchoice int
	reach  map[string]bool
	checks int
	trivial int
	notes  []string
}

func (in *Interp) where() string {
	fr := in.top
	if fr == nil || fr.cur == nil {
		return "?"
	}
	return in.posOf(fr.cur.Pos(), fr)
}

func (in *Interp) posOf(p token.Pos, fr *frame) string {
	if !p.IsValid() {
		// walk to find any valid position in the block
		if fr != nil && fr.fn != nil {
			return fr.fn.String()
		}
		return "?"
	}
	pos := in.prog.Fset.Position(p)
	f := pos.Filename
	if i := strings.LastIndex(f, "/"); i >= 0 {
		f = f[i+1:]
	}
	name := ""
	if fr != nil && fr.fn != nil {
		name = fr.fn.String() + " "
	}
	return fmt.Sprintf("%s%s:%d", name, f, pos.Line)
}

func (in *Interp) stack() string {
	var sb strings.Builder
	n := 0
	for fr := in.top; fr != nil && n < 12; fr = fr.caller {
		if fr.cur != nil {
			sb.WriteString(in.posOf(fr.cur.Pos(), fr))
		} else {
			sb.WriteString(fr.fn.String())
		}
		sb.WriteString(" <- ")
		n++
	}
	return sb.String()
}

func (in *Interp) goPanic(msg string) *goPanic {
	return &goPanic{v: Iface{T: types.Typ[types.String], V: msg}, msg: msg, site: in.where(), stack: in.stack()}
}

func (in *Interp) info(fn *ssa.Function) *fnInfo {
	if fi, ok := in.fnInfos[fn]; ok {
		return fi
	}
	fi := &fnInfo{idx: map[ssa.Value]int{}, fv: map[*ssa.FreeVar]int{}}
	for _, p := range fn.Params {
		fi.idx[p] = fi.n
		fi.n++
	}
	for i, v := range fn.FreeVars {
		fi.fv[v] = i
	}
	for _, b := range fn.Blocks {
		for _, ins := range b.Instrs {
			if v, ok := ins.(ssa.Value); ok {
				fi.idx[v] = fi.n
				fi.n++
			}
			if ia, ok := ins.(*ssa.IndexAddr); ok && ia.Referrers() != nil {
				for _, r := range *ia.Referrers() {
					if cv, ok := r.(*ssa.Convert); ok {
						if b, ok := cv.Type().Underlying().(*types.Basic); ok && b.Kind() == types.UnsafePointer {
							if fi.unsafeIdx == nil {
								fi.unsafeIdx = map[*ssa.IndexAddr]bool{}
							}
							fi.unsafeIdx[ia] = true
						}
					}
				}
			}
		}
	}
	if n := fn.String(); strings.Contains(n, "superfly/litefs") || strings.Contains(n, "superfly/ltx") {
		fi.track = !strings.Contains(n, "verifrt") && !strings.Contains(n, "Verif") && !strings.Contains(n, "verif")
	}
	in.fnInfos[fn] = fi
	return fi
}

func (in *Interp) constValue(c *ssa.Const) Value {
	if v, ok := in.consts[c]; ok {
		return v
	}
	var v Value
	t := c.Type()
	if c.Value == nil {
		v = in.zero(t)
	} else if b, ok := t.Underlying().(*types.Basic); ok {
		if w, signed, ok := intWidth(b); ok {
			if w == 0 {
				v = in.tb.Bool(constant.BoolVal(c.Value))
			} else if signed {
				i, _ := constant.Int64Val(constant.ToInt(c.Value))
				v = in.tb.Const(w, uint64(i))
			} else {
				u, _ := constant.Uint64Val(constant.ToInt(c.Value))
				v = in.tb.Const(w, u)
			}
		} else if isString(b) {
			v = constant.StringVal(c.Value)
		} else if isFloat(b) {
			v = Float{c.Value.String()}
		} else {
			panic(in.unsupported("const of type " + t.String()))
		}
	} else if _, ok := t.Underlying().(*types.Interface); ok {
		// typeparam-ish constants; treat as zero
		v = in.zero(t)
	} else {
		panic(in.unsupported("const of type " + t.String()))
	}
	in.consts[c] = v
	return v
}

func (fr *frame) get(v ssa.Value) Value {
	switch v := v.(type) {
	case *ssa.Const:
		return fr.in.constValue(v)
	case *ssa.Global:
		fr.in.checkGlobalUse(v)
		return fr.in.globalAddr(v)
	case *ssa.Function:
		return v
	case *ssa.Builtin:
		return v
	case *ssa.FreeVar:
		return fr.env[fr.info.fv[v]]
	}
	i, ok := fr.info.idx[v]
	if !ok {
		panic(fr.in.unsupported(fmt.Sprintf("unknown ssa value %T %s", v, v.Name())))
	}
	return fr.locals[i]
}

func (fr *frame) set(v ssa.Value, x Value) {
	fr.locals[fr.info.idx[v]] = x
}

// ---- globals ----

func (in *Interp) globalAddr(g *ssa.Global) *Value {
	if p, ok := in.globals[g]; ok {
		return p
	}
	// Lazily initialise the package the global belongs to.
	in.ensureInit(g.Pkg)
	if p, ok := in.globals[g]; ok {
		return p
	}
	p := new(Value)
	*p = in.zero(g.Type().(*types.Pointer).Elem())
	in.globals[g] = p
	return p
}

// ensureInit runs the package initialiser (once per path) for packages on the
// allow-list; other packages get zero globals plus targeted patches.
func (in *Interp) ensureInit(pkg *ssa.Package) {
	if pkg == nil || in.pkgInit[pkg] {
		return
	}
	in.pkgInit[pkg] = true
	for _, m := range pkg.Members {
		if g, ok := m.(*ssa.Global); ok {
			if _, ok := in.globals[g]; !ok {
				p := new(Value)
				*p = in.zero(g.Type().(*types.Pointer).Elem())
				in.globals[g] = p
			}
		}
	}
	path := pkg.Pkg.Path()
	if in.ex.runInit(path) {
		if initFn := pkg.Func("init"); initFn != nil {
			saved := in.top
			std := !strings.Contains(path, ".") // standard library: tolerate unmodelled runtime/reflect calls
			if std {
				in.tolerant++
			}
			in.execFunction(initFn, nil, nil, in.top)
			if std {
				in.tolerant--
			}
			in.top = saved
		}
	}
	in.patchGlobals(pkg)
	if !in.ex.runInit(path) {
		in.sentinelErrors(pkg)
	}
}

// checkGlobalUse fails closed when code touches a global that its package
// initialiser would have set up, but that initialiser is not run.
func (in *Interp) checkGlobalUse(g *ssa.Global) {
	if g.Pkg == nil || in.tolerant > 0 {
		return
	}
	path := g.Pkg.Pkg.Path()
	if in.ex.runInit(path) {
		return
	}
	ni, ok := in.needsInit[g.Pkg]
	if !ok {
		ni = map[*ssa.Global]bool{}
		if initFn := g.Pkg.Func("init"); initFn != nil {
			for _, b := range initFn.Blocks {
				for _, ins := range b.Instrs {
					st, ok := ins.(*ssa.Store)
					if !ok {
						continue
					}
					addr := st.Addr
					for {
						switch a := addr.(type) {
						case *ssa.FieldAddr:
							addr = a.X
							continue
						case *ssa.IndexAddr:
							addr = a.X
							continue
						}
						break
					}
					if gg, ok := addr.(*ssa.Global); ok {
						ni[gg] = true
					}
				}
			}
		}
		if in.needsInit == nil {
			in.needsInit = map[*ssa.Package]map[*ssa.Global]bool{}
		}
		in.needsInit[g.Pkg] = ni
	}
	in.ensureInit(g.Pkg)
	if ni[g] && !in.patched[g] {
		panic(in.unsupported("use of global " + g.String() + " whose package initialiser is not modelled (add the package to the initialiser allow-list or patch it)"))
	}
}

// sentinelErrors gives every still-nil `error` variable of a package whose
// initialiser is not run a distinct sentinel value (identity is what callers
// compare; the message is the variable's name).
func (in *Interp) sentinelErrors(pkg *ssa.Package) {
	rtp := in.prog.ImportedPackage(RT)
	if rtp == nil {
		return
	}
	tn, ok := rtp.Members["errorString"].(*ssa.Type)
	if !ok {
		return
	}
	errT := types.Universe.Lookup("error").Type()
	for name, m := range pkg.Members {
		g, ok := m.(*ssa.Global)
		if !ok || in.patched[g] {
			continue
		}
		if !types.Identical(g.Type().(*types.Pointer).Elem(), errT) {
			continue
		}
		cell := in.globals[g]
		if cur, ok := (*cell).(Iface); ok && cur.T != nil {
			continue
		}
		obj := new(Value)
		*obj = Struct{pkg.Pkg.Path() + "." + name}
		*cell = Iface{T: types.NewPointer(tn.Type()), V: obj}
		in.patched[g] = true
	}
}

// ---- calls ----

const maxDepth = 400

func (in *Interp) callFunction(fn *ssa.Function, args []Value, env []Value, caller *frame) Value {
	name := fn.String()
	if in.ex.traceCalls {
		fmt.Printf("%*scall %s\n", in.depth, "", name)
	}
	// runtime stubs installed by the harness take precedence
	if len(in.stubs) > 0 {
		if st, ok := in.stubs[name]; ok {
			return in.callValue(st, args, caller)
		}
	}
	if target, ok := in.ex.stubs[name]; ok {
		return in.callFunction(target, args, nil, caller)
	}
	if intr, ok := intrinsics[name]; ok {
		return intr(in, caller, args)
	}
	if in.tolerant > 0 {
		p := ""
		if fn.Pkg != nil {
			p = fn.Pkg.Pkg.Path()
		}
		switch p {
		case "reflect", "internal/reflectlite", "runtime", "internal/abi", "syscall", "internal/cpu", "internal/godebug", "internal/bisect":
			return in.dummyResults(fn.Signature.Results())
		}
		if fn.Blocks == nil {
			return in.dummyResults(fn.Signature.Results())
		}
	}
	if fn.Blocks == nil {
		if r, ok := in.callPrefixIntrinsic(fn, name, args); ok {
			return r
		}
		panic(in.unsupported("function without body: " + name))
	}
	if r, ok := in.callPrefixIntrinsic(fn, name, args); ok {
		return r
	}
	if fn.Synthetic == "package initializer" {
		in.ensureInit(fn.Pkg)
		return nil
	}
	return in.execFunction(fn, args, env, caller)
}

func (in *Interp) execFunction(fn *ssa.Function, args []Value, env []Value, caller *frame) Value {
	name := fn.String()
	if in.depth > maxDepth {
		panic(&pathEnd{kind: "inconclusive", reason: "call depth exceeded at " + name})
	}
	fi := in.info(fn)
	if fi.track {
		in.funcsSeen[fn] = true
	}
	fr := &frame{in: in, caller: caller, fn: fn, info: fi, env: env}
	fr.locals = make([]Value, fi.n)
	if len(args) != len(fn.Params) {
		panic(in.unsupported(fmt.Sprintf("arg count mismatch calling %s: %d vs %d", name, len(args), len(fn.Params))))
	}
	copy(fr.locals, args)
	fr.block = fn.Blocks[0]
	fr.visits = make([]int32, len(fn.Blocks))
	in.depth++
	fr.depth = in.depth
	saved := in.top
	in.top = fr
	for fr.block != nil {
		fr.runBlocks()
	}
	in.top = saved
	in.depth--
	return fr.result
}

// runBlocks runs until return or panic; interpreted panics unwind through the
// frame's defers.
func (fr *frame) runBlocks() {
	defer func() {
		if fr.block == nil {
			return
		}
		r := recover()
		gp, ok := r.(*goPanic)
		if !ok {
			panic(r)
		}
		in := fr.in
		in.top = fr
		in.depth = fr.depth
		fr.panicking = true
		fr.panicVal = gp
		fr.runDefers()
		// recovered: continue at the recover block, if any
		fr.block = fr.fn.Recover
		if fr.block == nil {
			// no named results to return: zero results
			fr.result = fr.zeroResults()
		}
	}()
	in := fr.in
	for {
		b := fr.block
		fr.visits[b.Index]++
		if in.loopBound > 0 && fr.visits[b.Index] > in.loopBound {
			in.reportViolation("check", fmt.Sprintf("loop does not terminate within %d iterations (hang)", in.loopBound), in.where(), in.stack())
			panic(&pathEnd{kind: "violation"})
		}
		if fr.visits[b.Index] > in.ex.MaxBlockVisits {
			panic(&pathEnd{kind: "inconclusive", reason: fmt.Sprintf("unwinding bound %d exceeded in %s block %d", in.ex.MaxBlockVisits, fr.fn, b.Index)})
		}
		in.blocks++
		if in.blocks&0xfffff == 0 && memoryExceeded() {
			panic(&pathEnd{kind: "inconclusive", reason: "process memory bound (24 GiB) exceeded: runaway harness or model loop"})
		}
	instrs:
		for _, ins := range b.Instrs {
			fr.cur = ins
			in.steps++
			switch fr.visit(ins) {
			case kNext:
			case kReturn:
				fr.block = nil
				return
			case kJump:
				break instrs
			}
		}
		if in.steps > in.ex.MaxSteps {
			panic(&pathEnd{kind: "inconclusive", reason: "step budget exceeded"})
		}
	}
}

func (fr *frame) zeroResults() Value {
	res := fr.fn.Signature.Results()
	switch res.Len() {
	case 0:
		return nil
	case 1:
		return fr.in.zero(res.At(0).Type())
	}
	return fr.in.zero(res)
}

func (fr *frame) runDefers() {
	for len(fr.defers) > 0 {
		d := fr.defers[len(fr.defers)-1]
		fr.defers = fr.defers[:len(fr.defers)-1]
		fr.runDefer(d)
	}
	if fr.panicking {
		panic(fr.panicVal)
	}
}

func (fr *frame) runDefer(d *deferred) {
	in := fr.in
	var ok bool
	defer func() {
		if !ok {
			r := recover()
			gp, isgp := r.(*goPanic)
			if !isgp {
				panic(r)
			}
			// a deferred call panicked: replaces the current panic
			fr.panicking = true
			fr.panicVal = gp
			in.top = fr
			in.depth = fr.depth
		}
	}()
	in.callValue(d.fn, d.args, fr)
	ok = true
}

// callValue calls a function value.
func (in *Interp) callValue(fv Value, args []Value, caller *frame) Value {
	switch f := fv.(type) {
	case *ssa.Function:
		if f == nil {
			panic(in.goPanic("call of nil function"))
		}
		return in.callFunction(f, args, nil, caller)
	case *Closure:
		if f == nil {
			panic(in.goPanic("call of nil function"))
		}
		return in.callFunction(f.Fn, args, f.Env, caller)
	case *ssa.Builtin:
		return in.callBuiltin(caller, f, args, nil)
	case nil:
		panic(in.goPanic("invalid memory address or nil pointer dereference (nil func)"))
	case *Host:
		if f.Kind == "gofunc" {
			return f.Data.(func(*Interp, *frame, []Value) Value)(in, caller, args)
		}
	}
	panic(in.unsupported(fmt.Sprintf("call of %T", fv)))
}

func (fr *frame) prepareCall(c *ssa.CallCommon) (Value, []Value) {
	in := fr.in
	var fn Value
	var args []Value
	if c.IsInvoke() {
		recv, ok := fr.get(c.Value).(Iface)
		if !ok {
			panic(in.unsupported(fmt.Sprintf("invoke on %T", fr.get(c.Value))))
		}
		if recv.T == nil {
			panic(in.goPanic("invalid memory address or nil pointer dereference (nil interface method call " + c.Method.Name() + ")"))
		}
		if h, ok := recv.V.(*Host); ok && h.Kind == "dummy" {
			return &Host{Kind: "gofunc", Data: func(in *Interp, _ *frame, _ []Value) Value {
				return in.dummyResults(c.Signature().Results())
			}}, nil
		}
		m := in.prog.LookupMethod(recv.T, c.Method.Pkg(), c.Method.Name())
		if m == nil {
			panic(in.unsupported(fmt.Sprintf("method %s not found on %s", c.Method.Name(), recv.T)))
		}
		fn = m
		args = append(args, recv.V)
	} else {
		fn = fr.get(c.Value)
	}
	for _, a := range c.Args {
		args = append(args, fr.get(a))
	}
	return fn, args
}

// dummyResults builds inert results for stubbed-out packages (metrics, logs).
func (in *Interp) dummyResults(res *types.Tuple) Value {
	mk := func(t types.Type) Value {
		switch t.Underlying().(type) {
		case *types.Interface:
			if types.Identical(t, types.Universe.Lookup("error").Type()) {
				return Iface{}
			}
			return Iface{T: dummyType, V: &Host{Kind: "dummy"}}
		case *types.Pointer:
			p := new(Value)
			*p = &Host{Kind: "dummy"}
			return p
		}
		return in.zero(t)
	}
	switch res.Len() {
	case 0:
		return nil
	case 1:
		return mk(res.At(0).Type())
	}
	tp := make(Tuple, res.Len())
	for i := range tp {
		tp[i] = mk(res.At(i).Type())
	}
	return tp
}

var dummyType = types.NewNamed(types.NewTypeName(token.NoPos, nil, "verifDummy", nil), types.NewStruct(nil, nil), nil)

// memoryExceeded reports whether the process heap has grown past 24 GiB: a
// path that appends without bound must end as inconclusive, not take the
// machine down.
func memoryExceeded() bool {
	var m runtime.MemStats
	runtime.ReadMemStats(&m)
	return m.HeapAlloc > 24<<30
}
