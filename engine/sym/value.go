package sym

import (
	"fmt"
	"go/types"
	"strings"

	"golang.org/x/tools/go/ssa"
)

// Value is an interpreter value:
//
//	*Term      integers (bit-vectors) and bools
//	string     concrete string
//	*SymStr    string with symbolic bytes (concrete length)
//	Struct     []Value (by-value semantics; copied on load/store)
//	Array      []Value
//	*Value     pointer (nil pointer = (*Value)(nil))
//	Slice      slice header over []Value
//	*Map       map
//	Iface      interface value
//	*Closure   function value with environment
//	*ssa.Function / *ssa.Builtin   function values
//	Tuple      multiple results
//	*Chan      channel (abstract)
//	Float      opaque float
//	*Host      engine-side object (file, context, ...)
type Value interface{}

type Struct []Value
type Array []Value
type Tuple []Value

type Slice struct {
	A []Value // nil for a nil slice
}

type SymStr struct{ B []*Term }

type Float struct{ Note string }

type Iface struct {
	T types.Type // nil for nil interface
	V Value
}

type Closure struct {
	Fn  *ssa.Function
	Env []Value
}

// Host is an engine-side object. Kind selects the intrinsic method table.
type Host struct {
	Kind string
	Data interface{}
}

type Chan struct {
	Kind string // "ctxdone", "ticker", "timer", "user"
	Data interface{}
	Buf  []Value
	Cap  int
	Closed bool
}

// Map is an insertion-ordered association list; keys may be symbolic.
type Map struct {
	Keys []Value
	Vals []Value
	Live []bool
	N    int
}

func (m *Map) Len() int { return m.N }

// UnsafePtr is an unsafe.Pointer value: a pointer plus enough context to
// reinterpret it.
type UnsafePtr struct {
	P    *Value
	Elem types.Type // static pointee type at conversion time
	Arr  []Value    // when P points into a slice/array: the rest of the backing store from P
}

func intWidth(t types.Type) (w int, signed bool, ok bool) {
	b, isb := t.Underlying().(*types.Basic)
	if !isb {
		return 0, false, false
	}
	switch b.Kind() {
	case types.Bool, types.UntypedBool:
		return 0, false, true
	case types.Int8:
		return 8, true, true
	case types.Int16:
		return 16, true, true
	case types.Int32, types.UntypedRune:
		return 32, true, true
	case types.Int64, types.Int, types.UntypedInt:
		return 64, true, true
	case types.Uint8:
		return 8, false, true
	case types.Uint16:
		return 16, false, true
	case types.Uint32:
		return 32, false, true
	case types.Uint64, types.Uint, types.Uintptr:
		return 64, false, true
	}
	return 0, false, false
}

func isFloat(t types.Type) bool {
	b, ok := t.Underlying().(*types.Basic)
	return ok && b.Info()&(types.IsFloat|types.IsComplex) != 0
}

func isString(t types.Type) bool {
	b, ok := t.Underlying().(*types.Basic)
	return ok && b.Info()&types.IsString != 0
}

// zero returns the zero value of type t.
func (in *Interp) zero(t types.Type) Value {
	switch u := t.Underlying().(type) {
	case *types.Basic:
		if w, _, ok := intWidth(u); ok {
			if w == 0 {
				return in.tb.F
			}
			return in.tb.Const(w, 0)
		}
		if isFloat(u) {
			return Float{"0"}
		}
		if isString(u) {
			return ""
		}
		if u.Kind() == types.UnsafePointer {
			return UnsafePtr{}
		}
		if u.Kind() == types.UntypedNil {
			return nil
		}
		panic(in.unsupported("zero of basic " + u.String()))
	case *types.Struct:
		s := make(Struct, u.NumFields())
		for i := range s {
			s[i] = in.zero(u.Field(i).Type())
		}
		return s
	case *types.Array:
		n := int(u.Len())
		a := make(Array, n)
		if n > 0 {
			// share immutable scalar zero
			z := in.zero(u.Elem())
			switch z.(type) {
			case Struct, Array:
				for i := range a {
					a[i] = in.zero(u.Elem())
				}
			default:
				for i := range a {
					a[i] = z
				}
			}
		}
		return a
	case *types.Pointer:
		return (*Value)(nil)
	case *types.Slice:
		return Slice{}
	case *types.Map:
		return (*Map)(nil)
	case *types.Interface:
		return Iface{}
	case *types.Signature:
		return nil
	case *types.Chan:
		return (*Chan)(nil)
	case *types.Tuple:
		tp := make(Tuple, u.Len())
		for i := range tp {
			tp[i] = in.zero(u.At(i).Type())
		}
		return tp
	}
	panic(in.unsupported("zero of " + t.String()))
}

// copyVal returns a deep copy of aggregates (structs/arrays); other values are
// immutable or reference-like.
func copyVal(v Value) Value {
	switch v := v.(type) {
	case Struct:
		c := make(Struct, len(v))
		for i, f := range v {
			c[i] = copyVal(f)
		}
		return c
	case Array:
		c := make(Array, len(v))
		for i, f := range v {
			c[i] = copyVal(f)
		}
		return c
	case Tuple:
		c := make(Tuple, len(v))
		for i, f := range v {
			c[i] = copyVal(f)
		}
		return c
	}
	return v
}

// storeInto stores v into *p keeping the identity of sub-cells of aggregates
// (so that outstanding field/element pointers stay valid).
func storeInto(p *Value, v Value) {
	switch v := v.(type) {
	case Struct:
		if cur, ok := (*p).(Struct); ok && len(cur) == len(v) {
			for i := range v {
				storeInto(&cur[i], v[i])
			}
			return
		}
		*p = copyVal(v)
	case Array:
		if cur, ok := (*p).(Array); ok && len(cur) == len(v) {
			for i := range v {
				storeInto(&cur[i], v[i])
			}
			return
		}
		*p = copyVal(v)
	default:
		*p = v
	}
}

func (s *SymStr) String() string { return fmt.Sprintf("<symstr len=%d>", len(s.B)) }

// strBytes returns the byte terms of a string value.
func (in *Interp) strBytes(v Value) []*Term {
	switch s := v.(type) {
	case string:
		out := make([]*Term, len(s))
		for i := 0; i < len(s); i++ {
			out[i] = in.tb.Const(8, uint64(s[i]))
		}
		return out
	case *SymStr:
		return s.B
	}
	panic(in.unsupported(fmt.Sprintf("strBytes of %T", v)))
}

// mkStr builds a string value from byte terms (concrete string if possible).
func mkStr(b []*Term) Value {
	allc := true
	for _, t := range b {
		if !t.IsConst() {
			allc = false
			break
		}
	}
	if allc {
		bs := make([]byte, len(b))
		for i, t := range b {
			bs[i] = byte(t.Val)
		}
		return string(bs)
	}
	return &SymStr{B: append([]*Term(nil), b...)}
}

func strLen(v Value) int {
	switch s := v.(type) {
	case string:
		return len(s)
	case *SymStr:
		return len(s.B)
	}
	panic(fmt.Sprintf("strLen of %T", v))
}

// valEq returns a Bool term for a == b (Go == semantics) for comparable values.
func (in *Interp) valEq(a, b Value) *Term {
	tb := in.tb
	switch x := a.(type) {
	case *Term:
		y, ok := b.(*Term)
		if !ok {
			panic(in.unsupported(fmt.Sprintf("valEq term vs %T", b)))
		}
		return tb.Eq(x, y)
	case string:
		switch y := b.(type) {
		case string:
			return tb.Bool(x == y)
		case *SymStr:
			return in.symStrEq(y, x)
		}
	case *SymStr:
		switch y := b.(type) {
		case string:
			return in.symStrEq(x, y)
		case *SymStr:
			if len(x.B) != len(y.B) {
				return tb.F
			}
			cs := make([]*Term, len(x.B))
			for i := range x.B {
				cs[i] = tb.Eq(x.B[i], y.B[i])
			}
			return tb.And(cs...)
		}
	case Struct:
		y := b.(Struct)
		cs := make([]*Term, len(x))
		for i := range x {
			cs[i] = in.valEq(x[i], y[i])
		}
		return tb.And(cs...)
	case Array:
		y := b.(Array)
		cs := make([]*Term, len(x))
		for i := range x {
			cs[i] = in.valEq(x[i], y[i])
		}
		return tb.And(cs...)
	case *Value:
		y, ok := b.(*Value)
		if !ok {
			if b == nil {
				return tb.Bool(x == nil)
			}
			panic(in.unsupported(fmt.Sprintf("valEq ptr vs %T", b)))
		}
		return tb.Bool(x == y)
	case Iface:
		y, ok := b.(Iface)
		if !ok {
			panic(in.unsupported(fmt.Sprintf("valEq iface vs %T", b)))
		}
		if x.T == nil || y.T == nil {
			return tb.Bool(x.T == nil && y.T == nil)
		}
		if !types.Identical(x.T, y.T) {
			return tb.F
		}
		return in.valEq(x.V, y.V)
	case *Map:
		y, _ := b.(*Map)
		return tb.Bool(x == y)
	case *Chan:
		y, _ := b.(*Chan)
		return tb.Bool(x == y)
	case *Host:
		y, _ := b.(*Host)
		return tb.Bool(x == y)
	case nil:
		switch y := b.(type) {
		case nil:
			return tb.T
		case *Value:
			return tb.Bool(y == nil)
		case *Closure:
			return tb.Bool(y == nil)
		case *ssa.Function:
			return tb.Bool(y == nil)
		}
		return tb.F
	case *Closure:
		if b == nil {
			return tb.Bool(x == nil)
		}
		y, _ := b.(*Closure)
		return tb.Bool(x == y)
	case *ssa.Function:
		if b == nil {
			return tb.Bool(x == nil)
		}
		y, _ := b.(*ssa.Function)
		return tb.Bool(x == y)
	case Slice:
		// only comparison with nil is legal
		if y, ok := b.(Slice); ok && y.A == nil {
			return tb.Bool(x.A == nil)
		}
	case Float:
		panic(in.unsupported("float comparison"))
	case UnsafePtr:
		y, _ := b.(UnsafePtr)
		return tb.Bool(x.P == y.P)
	}
	panic(in.unsupported(fmt.Sprintf("valEq %T vs %T", a, b)))
}

func (in *Interp) symStrEq(x *SymStr, y string) *Term {
	if len(x.B) != len(y) {
		return in.tb.F
	}
	cs := make([]*Term, len(y))
	for i := range cs {
		cs[i] = in.tb.Eq(x.B[i], in.tb.Const(8, uint64(y[i])))
	}
	return in.tb.And(cs...)
}

// ---- maps ----

func (in *Interp) mapFind(m *Map, k Value) int {
	if m == nil {
		return -1
	}
	for i := range m.Keys {
		if !m.Live[i] {
			continue
		}
		c := in.valEq(m.Keys[i], k)
		if in.Branch(c) {
			return i
		}
	}
	return -1
}

func (in *Interp) mapGet(m *Map, k Value) (Value, bool) {
	i := in.mapFind(m, k)
	if i < 0 {
		return nil, false
	}
	return m.Vals[i], true
}

func (in *Interp) mapSet(m *Map, k, v Value) {
	if m == nil {
		panic(in.goPanic("assignment to entry in nil map"))
	}
	i := in.mapFind(m, k)
	if i >= 0 {
		m.Vals[i] = v
		return
	}
	m.Keys = append(m.Keys, k)
	m.Vals = append(m.Vals, v)
	m.Live = append(m.Live, true)
	m.N++
}

func (in *Interp) mapDelete(m *Map, k Value) {
	i := in.mapFind(m, k)
	if i >= 0 {
		m.Live[i] = false
		m.N--
	}
}

func describe(v Value) string {
	switch x := v.(type) {
	case *Term:
		return x.String()
	case string:
		return fmt.Sprintf("%q", x)
	case Struct:
		var parts []string
		for _, f := range x {
			parts = append(parts, describe(f))
		}
		return "{" + strings.Join(parts, ", ") + "}"
	case Iface:
		if x.T == nil {
			return "nil-iface"
		}
		return "iface(" + x.T.String() + ":" + describe(x.V) + ")"
	case *Value:
		if x == nil {
			return "nil-ptr"
		}
		return fmt.Sprintf("ptr(%p)", x)
	case Slice:
		return fmt.Sprintf("slice(len=%d)", len(x.A))
	case nil:
		return "nil"
	}
	return fmt.Sprintf("%T", v)
}
