package sym

import (
	"fmt"
	"os"
	"sort"
	"strings"
	"sync"
	"time"

	"golang.org/x/tools/go/ssa"
)

// Violation is a failed obligation with a model.
type Violation struct {
	Kind    string            `json:"kind"` // "check", "panic", "exit"
	Msg     string            `json:"msg"`
	Site    string            `json:"site"`
	Stack   string            `json:"stack,omitempty"`
	Harness string            `json:"harness"`
	Model   map[string]uint64 `json:"model"`
	Order   []string          `json:"order"` // nondet variables in creation order
	Choices []uint64          `json:"choices"`
	Trace   []uint64          `json:"trace"`
	Key     string            `json:"key"`
	Func    string            `json:"func"`
	Tier    int               `json:"tier"`
	Expect  string            `json:"expect,omitempty"`
	ChoiceTags []string       `json:"choice_tags,omitempty"`
}

// Explorer drives the exploration of one harness.
type Explorer struct {
	Prog    *ssa.Program
	Entry   *ssa.Function
	Harness string
	Tier    int
	Workers int
	SolverBin string
	TimeoutMS int

	MaxBlockVisits int32
	MaxSteps       int64
	MaxDecisions   int
	MaxConcretize  int
	MaxAlloc       int
	MaxPaths       int

	stubs      map[string]*ssa.Function
	initPkgs   map[string]bool
	skipGoPref []string
	traceCalls bool
	Replay     *Violation // when set: concrete replay of this model

	mu       sync.Mutex
	work     [][]uint64
	inflight int
	cond     *sync.Cond

	// results
	Paths, PathsDone, Infeasible int
	Violations    []*Violation
	Inconclusive  []string
	Reached       map[string]int
	ReachModels   map[string]*Violation
	PathWitnesses []*Violation
	WitnessMax, WitnessStride int
	Deadline      time.Time
	Checks, Trivial, Discharged int
	Blocks, Steps int64
	NSat, NUnsat, NUnknown int
	SolverTime    time.Duration
	Notes         map[string]int
	Samples       []string
	ExpectFail    map[string]bool // twin assertions that must be violated
	ExpectSeen    map[string]bool
	FuncsSeen     map[string]bool
	stopped       bool
}

func NewExplorer(prog *ssa.Program, entry *ssa.Function) *Explorer {
	ex := &Explorer{Prog: prog, Entry: entry, Workers: 8, SolverBin: "z3", TimeoutMS: 30000,
		MaxBlockVisits: 3000000, MaxSteps: 2000e6, MaxDecisions: 2000, MaxConcretize: 64, MaxAlloc: 1 << 20,
		MaxPaths: 2000000, WitnessMax: 24, WitnessStride: 7,
		Reached: map[string]int{}, ReachModels: map[string]*Violation{}, Notes: map[string]int{},
		ExpectFail: map[string]bool{}, ExpectSeen: map[string]bool{}, FuncsSeen: map[string]bool{},
		stubs: map[string]*ssa.Function{}, initPkgs: map[string]bool{}}
	ex.cond = sync.NewCond(&ex.mu)
	return ex
}

func (ex *Explorer) runInit(path string) bool {
	if ex.initPkgs[path] {
		return true
	}
	for p := range ex.initPkgs {
		if strings.HasSuffix(p, "/...") && strings.HasPrefix(path, strings.TrimSuffix(p, "...")) {
			return true
		}
	}
	return false
}

func (ex *Explorer) skipGo(name string) bool {
	for _, p := range ex.skipGoPref {
		if strings.HasPrefix(name, p) {
			return true
		}
	}
	return false
}

// Run explores all paths.
func (ex *Explorer) Run() {
	ex.work = [][]uint64{nil}
	var wg sync.WaitGroup
	n := ex.Workers
	if ex.Replay != nil {
		n = 1
	}
	for w := 0; w < n; w++ {
		wg.Add(1)
		go func(id int) {
			defer wg.Done()
			ex.worker(id)
		}(w)
	}
	wg.Wait()
}

func (ex *Explorer) take() ([]uint64, bool) {
	ex.mu.Lock()
	defer ex.mu.Unlock()
	for {
		if !ex.Deadline.IsZero() && time.Now().After(ex.Deadline) && !ex.stopped {
			ex.stopped = true
			ex.Inconclusive = append(ex.Inconclusive, fmt.Sprintf("time budget exhausted with %d paths pending", len(ex.work)))
			ex.cond.Broadcast()
		}
		if ex.stopped {
			return nil, false
		}
		if n := len(ex.work); n > 0 {
			p := ex.work[n-1]
			ex.work = ex.work[:n-1]
			ex.inflight++
			return p, true
		}
		if ex.inflight == 0 {
			ex.cond.Broadcast()
			return nil, false
		}
		ex.cond.Wait()
	}
}

func (ex *Explorer) done() {
	ex.mu.Lock()
	ex.inflight--
	if ex.inflight == 0 && len(ex.work) == 0 {
		ex.cond.Broadcast()
	}
	ex.mu.Unlock()
}

func (ex *Explorer) push(p []uint64) {
	ex.mu.Lock()
	ex.work = append(ex.work, p)
	ex.Paths++
	if ex.Paths > ex.MaxPaths {
		ex.stopped = true
		ex.Inconclusive = append(ex.Inconclusive, fmt.Sprintf("path bound %d exceeded", ex.MaxPaths))
	}
	ex.cond.Signal()
	ex.mu.Unlock()
}

func (ex *Explorer) worker(id int) {
	tb := NewTB()
	var sol *Solver
	if ex.Replay == nil {
		var err error
		sol, err = NewSolver(ex.SolverBin, tb, ex.TimeoutMS)
		if err != nil {
			ex.mu.Lock()
			ex.Inconclusive = append(ex.Inconclusive, "cannot start solver: "+err.Error())
			ex.stopped = true
			ex.mu.Unlock()
			return
		}
		defer sol.Close()
		if lf := os.Getenv("VERIF_SMTLOG"); lf != "" {
			f, _ := os.Create(fmt.Sprintf("%s.%d.smt2", lf, id))
			sol.Log = f
			defer f.Close()
		}
	}
	in := &Interp{prog: ex.Prog, tb: tb, sol: sol, ex: ex, fnInfos: map[*ssa.Function]*fnInfo{}, consts: map[*ssa.Const]Value{}, funcsSeen: map[*ssa.Function]bool{}}
	for {
		prefix, ok := ex.take()
		if !ok {
			break
		}
		in.runPath(prefix)
		ex.done()
	}
	ex.mu.Lock()
	for fn := range in.funcsSeen {
		ex.FuncsSeen[fn.String()] = true
	}
	ex.mu.Unlock()
	if sol != nil {
		ex.mu.Lock()
		ex.NSat += sol.NSat
		ex.NUnsat += sol.NUnsat
		ex.NUnknown += sol.NUnknown
		ex.SolverTime += sol.Time
		if sol.ErrSeen != "" {
			ex.Inconclusive = append(ex.Inconclusive, "solver error: "+sol.ErrSeen)
		}
		ex.mu.Unlock()
	}
}

func (in *Interp) runPath(prefix []uint64) {
	ex := in.ex
	in.globals = map[*ssa.Global]*Value{}
	in.pkgInit = map[*ssa.Package]bool{}
	in.patched = map[*ssa.Global]bool{}
	in.path = &pathState{prefix: prefix, reach: map[string]bool{}}
	in.nondetSeq = map[string]int{}
	in.stubs = nil
	in.hostState = map[string]interface{}{}
	in.top = nil
	in.depth = 0
	in.steps = 0
	in.blocks = 0
	in.allocBytes = 0
	in.loopBound = 0
	in.parked = nil
	in.inGoroutine = 0
	in.elemOrigin = nil
	if in.sol != nil {
		in.sol.Reset()
		in.sol.Push()
	}
	var end *pathEnd
	func() {
		defer func() {
			if r := recover(); r != nil {
				switch e := r.(type) {
				case *pathEnd:
					end = e
				case *goPanic:
					// escaped panic: a violation (all explored paths are feasible)
					in.reportViolation("panic", "panic: "+e.msg, e.site, e.stack)
					end = &pathEnd{kind: "violation"}
				default:
					end = &pathEnd{kind: "inconclusive", reason: fmt.Sprintf("engine panic: %v @ %s\n%s", r, in.where(), in.stack())}
					if os.Getenv("VERIF_DEBUG") != "" {
						panic(r)
					}
				}
			}
		}()
		in.ensureInit(ex.Entry.Pkg)
		in.callFunction(ex.Entry, nil, nil, nil)
		in.confirmPC()
	}()
	if end == nil {
		end = &pathEnd{kind: "done"}
	}
	// sample completed paths as translator-validation witnesses
	if end.kind == "done" && in.sol != nil && ex.WitnessMax > 0 {
		ex.mu.Lock()
		want := len(ex.PathWitnesses) < ex.WitnessMax && (ex.PathsDone%ex.WitnessStride == 0)
		ex.mu.Unlock()
		if want {
			if m, order := in.model(); m != nil {
				var tags []string
				for t := range in.path.reach {
					tags = append(tags, t)
				}
				sort.Strings(tags)
				w := &Violation{Kind: "witness", Msg: "completed path", Harness: ex.Harness, Func: ex.Entry.Name(), Tier: ex.Tier, Model: m, Order: order,
					Choices: append([]uint64(nil), in.path.choices...), Expect: "ok:" + strings.Join(tags, ",")}
				ex.mu.Lock()
				ex.PathWitnesses = append(ex.PathWitnesses, w)
				ex.mu.Unlock()
			}
		}
	}
	ex.mu.Lock()
	defer ex.mu.Unlock()
	ex.Blocks += in.blocks
	ex.Steps += in.steps
	ex.Checks += in.path.checks
	ex.Trivial += in.path.trivial
	for _, n := range in.path.notes {
		ex.Notes[n]++
	}
	switch end.kind {
	case "done", "violation":
		ex.PathsDone++
		for tag := range in.path.reach {
			ex.Reached[tag]++
		}
		if len(ex.Samples) < 5 && end.kind == "done" {
			ex.Samples = append(ex.Samples, in.describePath())
		}
	case "infeasible":
		ex.Infeasible++
	case "inconclusive":
		ex.Inconclusive = append(ex.Inconclusive, end.reason)
	}
}

func (in *Interp) describePath() string {
	var sb strings.Builder
	fmt.Fprintf(&sb, "decisions=%v pc_conjuncts=%d", in.path.trace, len(in.path.pc))
	n := 0
	for _, c := range in.path.pc {
		if n >= 3 {
			break
		}
		sb.WriteString(" ; " + c.String())
		n++
	}
	return sb.String()
}

func (in *Interp) note(s string) { in.path.notes = append(in.path.notes, s) }

func (in *Interp) addPC(c *Term) {
	if c.IsTrue() {
		return
	}
	if in.path.pcSet == nil {
		in.path.pcSet = map[uint32]bool{}
	}
	if in.path.pcSet[c.ID] {
		return
	}
	in.path.pcSet[c.ID] = true
	if c.Op == OpAnd {
		for _, a := range c.Args {
			in.path.pcSet[a.ID] = true
		}
	}
	in.path.pc = append(in.path.pc, c)
	if in.sol != nil {
		in.sol.Assert(c)
	}
}

// recorded returns a value that must be identical on re-execution.
func (in *Interp) recorded(f func() uint64) uint64 {
	p := in.path
	if len(p.trace) < len(p.prefix) {
		v := p.prefix[len(p.trace)]
		p.trace = append(p.trace, v)
		return v
	}
	v := f()
	p.trace = append(p.trace, v)
	return v
}

func (in *Interp) altPrefix(v uint64) []uint64 {
	p := in.path
	alt := make([]uint64, len(p.trace)+1)
	copy(alt, p.trace)
	alt[len(p.trace)] = v
	return alt
}

// Branch decides a symbolic condition, forking when both sides are feasible.
func (in *Interp) Branch(c *Term) bool {
	if c.IsConst() {
		return c.Val == 1
	}
	p := in.path
	if in.ex.Replay != nil {
		panic(&pathEnd{kind: "inconclusive", reason: "replay: non-constant branch condition " + c.String() + " @ " + in.where()})
	}
	// already decided on this path? (no solver call, no trace entry)
	if p.pcSet[c.ID] {
		return true
	}
	if p.pcSet[in.tb.Not(c).ID] {
		return false
	}
	if len(p.trace) < len(p.prefix) {
		v := p.prefix[len(p.trace)]
		p.trace = append(p.trace, v)
		if v == 1 {
			in.addPC(c)
			return true
		}
		in.addPC(in.tb.Not(c))
		return false
	}
	if len(p.trace) >= in.ex.MaxDecisions {
		panic(&pathEnd{kind: "inconclusive", reason: fmt.Sprintf("decision bound %d exceeded @ %s", in.ex.MaxDecisions, in.where())})
	}
	nc := in.tb.Not(c)
	rT := in.sol.CheckWith(c)
	if rT == Sat {
		p.unchecked = false
	}
	if rT == Unsat {
		in.confirmPC()
		p.trace = append(p.trace, 0)
		in.addPC(nc)
		return false
	}
	rF := in.sol.CheckWith(nc)
	if rF == Unsat {
		p.trace = append(p.trace, 1)
		in.addPC(c)
		return true
	}
	if rT == Unknown || rF == Unknown {
		in.note("solver unknown at branch (both sides kept)")
		in.ex.mu.Lock()
		in.ex.Inconclusive = append(in.ex.Inconclusive, "solver returned unknown for a branch feasibility query @ "+in.where())
		in.ex.mu.Unlock()
	}
	in.ex.push(in.altPrefix(0))
	p.trace = append(p.trace, 1)
	in.addPC(c)
	return true
}

// Choose forks n ways without the solver.
func (in *Interp) Choose(n int) int {
	if n <= 0 {
		panic(&pathEnd{kind: "infeasible", reason: "empty choose"})
	}
	if n == 1 {
		return 0
	}
	p := in.path
	if in.ex.Replay != nil {
		if p.nchoice >= len(in.ex.Replay.Choices) {
			panic(&pathEnd{kind: "inconclusive", reason: "replay ran past recorded choices"})
		}
		v := in.ex.Replay.Choices[p.nchoice]
		p.nchoice++
		return int(v)
	}
	if len(p.trace) < len(p.prefix) {
		v := p.prefix[len(p.trace)]
		p.trace = append(p.trace, v)
		p.choices = append(p.choices, v)
		return int(v)
	}
	for i := n - 1; i >= 1; i-- {
		in.ex.push(in.altPrefix(uint64(i)))
	}
	p.trace = append(p.trace, 0)
	p.choices = append(p.choices, 0)
	return 0
}

// freshVar creates a named symbolic variable.
func (in *Interp) freshVar(tag string, w int) *Term {
	k := in.nondetSeq[tag]
	in.nondetSeq[tag] = k + 1
	name := tag
	if k > 0 {
		name = fmt.Sprintf("%s#%d", tag, k)
	}
	if in.ex.Replay != nil {
		v, ok := in.ex.Replay.Model[name]
		if !ok {
			v = 0
		}
		if w == 0 {
			return in.tb.Bool(v == 1)
		}
		return in.tb.Const(w, v)
	}
	t := in.tb.Var(name, w)
	in.path.vars = append(in.path.vars, t)
	return t
}

func (in *Interp) freshBool(tag string) *Term { return in.freshVar(tag, 0) }

func (in *Interp) assume(c *Term) {
	if c.IsTrue() {
		return
	}
	if c.IsFalse() {
		panic(&pathEnd{kind: "infeasible", reason: "assume(false)"})
	}
	if in.ex.Replay != nil {
		return
	}
	in.addPC(c)
	in.path.unchecked = true
}

// confirmPC makes sure the path condition is satisfiable after lazily added
// assumptions; an unsatisfiable one ends the path as infeasible.
func (in *Interp) confirmPC() {
	if !in.path.unchecked || in.sol == nil {
		return
	}
	switch in.sol.Check() {
	case Unsat:
		panic(&pathEnd{kind: "infeasible", reason: "assumptions unsatisfiable"})
	case Unknown:
		panic(&pathEnd{kind: "inconclusive", reason: "solver unknown while confirming assumptions @ " + in.where()})
	}
	in.path.unchecked = false
}

// check discharges an obligation.
func (in *Interp) check(c *Term, msg string) {
	p := in.path
	if strings.HasPrefix(msg, "TWIN:") {
		// deliberately false twin: must be violated somewhere; never constrains the path
		if c.IsFalse() || (!c.IsTrue() && in.ex.Replay == nil && in.sol.CheckWith(in.tb.Not(c)) == Sat) {
			in.ex.mu.Lock()
			in.ex.ExpectSeen[msg] = true
			in.ex.mu.Unlock()
		}
		return
	}
	p.checks++
	if c.IsTrue() {
		p.trivial++
		in.ex.mu.Lock()
		in.ex.Discharged++
		in.ex.mu.Unlock()
		return
	}
	if c.IsFalse() {
		in.confirmPC() // lazily added assumptions may make this path infeasible
		in.reportViolation("check", msg, in.where(), in.stack())
		panic(&pathEnd{kind: "violation"})
	}
	if in.ex.Replay != nil {
		panic(&pathEnd{kind: "inconclusive", reason: "replay: non-constant check"})
	}
	r := in.sol.CheckWith(in.tb.Not(c))
	switch r {
	case Unsat:
		in.confirmPC()
		in.ex.mu.Lock()
		in.ex.Discharged++
		in.ex.mu.Unlock()
		in.addPC(c)
	case Sat:
		in.path.pc = append(in.path.pc, in.tb.Not(c))
		in.sol.Assert(in.tb.Not(c))
		in.reportViolation("check", msg, in.where(), in.stack())
		panic(&pathEnd{kind: "violation"})
	default:
		panic(&pathEnd{kind: "inconclusive", reason: "solver unknown for obligation: " + msg + " @ " + in.where()})
	}
}

// reach records a reachability witness (with a model, once per tag).
func (in *Interp) reach(tag string) {
	in.confirmPC()
	in.path.reach[tag] = true
	ex := in.ex
	ex.mu.Lock()
	_, have := ex.ReachModels[tag]
	ex.mu.Unlock()
	if have || in.sol == nil {
		return
	}
	m, order := in.model()
	if m != nil {
		w := &Violation{Kind: "witness", Msg: tag, Harness: ex.Harness, Func: ex.Entry.Name(), Tier: ex.Tier, Model: m, Order: order,
			Choices: append([]uint64(nil), in.path.choices...), Expect: "reach:" + tag, ChoiceTags: append([]string(nil), in.path.choiceTags...)}
		ex.mu.Lock()
		if _, have := ex.ReachModels[tag]; !have {
			ex.ReachModels[tag] = w
		}
		ex.mu.Unlock()
	}
}

func (in *Interp) model() (map[string]uint64, []string) {
	vars := in.path.vars
	order := make([]string, len(vars))
	for i, v := range vars {
		order[i] = v.Name
	}
	if len(vars) == 0 {
		if in.sol.Check() == Sat {
			return map[string]uint64{}, order
		}
		return nil, order
	}
	r, vals, err := in.sol.ModelWith(nil, vars)
	if r != Sat || err != nil {
		return nil, order
	}
	m := map[string]uint64{}
	for i, v := range vars {
		m[v.Name] = vals[i]
	}
	return m, order
}

func (in *Interp) reportViolation(kind, msg, site, stack string) {
	ex := in.ex
	v := &Violation{Kind: kind, Msg: msg, Site: site, Stack: stack, Harness: ex.Harness, Func: ex.Entry.Name(), Tier: ex.Tier, Expect: "fail"}
	if ex.Replay != nil {
		v.Model = ex.Replay.Model
	} else {
		m, order := in.model()
		if m == nil {
			// the path condition could not be confirmed satisfiable
			ex.mu.Lock()
			ex.Inconclusive = append(ex.Inconclusive, "violation candidate without model ("+msg+" @ "+site+")")
			ex.mu.Unlock()
			return
		}
		v.Model, v.Order = m, order
	}
	v.Trace = append([]uint64(nil), in.path.trace...)
	v.Choices = append([]uint64(nil), in.path.choices...)
	v.ChoiceTags = append([]string(nil), in.path.choiceTags...)
	v.Key = kind + "|" + msg + "|" + site + "|" + stackHead(stack, 3)
	ex.mu.Lock()
	defer ex.mu.Unlock()
	if strings.HasPrefix(msg, "TWIN:") {
		ex.ExpectSeen[msg] = true
		return
	}
	for _, o := range ex.Violations {
		if o.Key == v.Key {
			return
		}
	}
	ex.Violations = append(ex.Violations, v)
	if len(ex.Violations) >= 20 {
		ex.stopped = true
	}
}

func stackHead(stack string, n int) string {
	parts := strings.Split(stack, " <- ")
	if len(parts) > n {
		parts = parts[:n]
	}
	return strings.Join(parts, " <- ")
}

// Summary returns a sorted list of inconclusive reasons (deduplicated).
func (ex *Explorer) InconclusiveSummary() []string {
	m := map[string]int{}
	for _, s := range ex.Inconclusive {
		m[s]++
	}
	var out []string
	for s, n := range m {
		out = append(out, fmt.Sprintf("%s (x%d)", s, n))
	}
	sort.Strings(out)
	return out
}
