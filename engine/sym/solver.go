package sym

import (
	"bufio"
	"fmt"
	"io"
	"os/exec"
	"strconv"
	"strings"
	"time"
)

// Result of a check-sat.
type Result int

const (
	Unsat Result = iota
	Sat
	Unknown
)

func (r Result) String() string { return [...]string{"unsat", "sat", "unknown"}[r] }

// Solver wraps one long-lived SMT solver process speaking SMT-LIB2 on stdin.
type Solver struct {
	cmd   *exec.Cmd
	in    io.WriteCloser
	out   *bufio.Reader
	Bin   string
	level int
	// per-scope bookkeeping of declared symbols / defined terms
	declLevel map[string]int
	shadow    map[uint32]bool
	scopes    [][]string // names declared at each level
	defScopes [][]uint32
	tb        *TB

	// statistics
	NSat, NUnsat, NUnknown int
	Time                   time.Duration
	ErrSeen                string
	TimeoutMS              int
	QuickMS                int
	Fallbacks              int
	Log                    io.Writer
	buf                    strings.Builder
}

// NewSolver starts a solver. bin is "z3", "z3-new" or "cvc5".
func NewSolver(bin string, tb *TB, timeoutMS int) (*Solver, error) {
	var args []string
	switch {
	case strings.HasPrefix(bin, "cvc5"):
		args = []string{"--incremental", "--lang=smt2", "--produce-models", fmt.Sprintf("--tlimit-per=%d", timeoutMS)}
	default:
		args = []string{"-in", "-smt2", fmt.Sprintf("-t:%d", timeoutMS)}
	}
	cmd := exec.Command(bin, args...)
	in, err := cmd.StdinPipe()
	if err != nil {
		return nil, err
	}
	out, err := cmd.StdoutPipe()
	if err != nil {
		return nil, err
	}
	cmd.Stderr = cmd.Stdout
	if err := cmd.Start(); err != nil {
		return nil, err
	}
	s := &Solver{cmd: cmd, in: in, out: bufio.NewReaderSize(out, 1<<16), Bin: bin, tb: tb, TimeoutMS: timeoutMS, QuickMS: 500}
	s.resetBook()
	if strings.HasPrefix(bin, "cvc5") {
		s.send("(set-logic ALL)\n")
	}
	s.send("(set-option :produce-models true)\n")
	return s, nil
}

func (s *Solver) resetBook() {
	s.level = 0
	s.declLevel = map[string]int{}
	s.shadow = map[uint32]bool{}
	s.scopes = [][]string{nil}
	s.defScopes = [][]uint32{nil}
}

func (s *Solver) Close() {
	if s.cmd != nil {
		_ = s.in.Close()
		_ = s.cmd.Process.Kill()
		_ = s.cmd.Wait()
		s.cmd = nil
	}
}

func (s *Solver) send(str string) {
	if s.Log != nil {
		io.WriteString(s.Log, str)
	}
	io.WriteString(s.in, str)
}

// Reset pops everything.
func (s *Solver) Reset() {
	if s.level > 0 {
		s.send(fmt.Sprintf("(pop %d)\n", s.level))
	}
	// level-0 declarations survive; keep bookkeeping for level 0 only
	for lvl := len(s.scopes) - 1; lvl >= 1; lvl-- {
		for _, n := range s.scopes[lvl] {
			delete(s.declLevel, n)
		}
		for _, id := range s.defScopes[lvl] {
			delete(s.shadow, id)
		}
	}
	s.scopes = s.scopes[:1]
	s.defScopes = s.defScopes[:1]
	s.level = 0
}

func (s *Solver) Push() {
	s.send("(push 1)\n")
	s.level++
	s.scopes = append(s.scopes, nil)
	s.defScopes = append(s.defScopes, nil)
}

func (s *Solver) Pop() {
	if s.level == 0 {
		panic("pop at level 0")
	}
	s.send("(pop 1)\n")
	for _, n := range s.scopes[s.level] {
		delete(s.declLevel, n)
	}
	for _, id := range s.defScopes[s.level] {
		delete(s.shadow, id)
	}
	s.scopes = s.scopes[:s.level]
	s.defScopes = s.defScopes[:s.level]
	s.level--
}

const inlineSize = 24

// prepare emits declarations and define-funs for t's sub-terms.
func (s *Solver) prepare(t *Term, sb *strings.Builder, seen map[uint32]bool) {
	if s.shadow[t.ID] || seen[t.ID] {
		return
	}
	seen[t.ID] = true
	switch t.Op {
	case OpConst:
		return
	case OpVar:
		if _, ok := s.declLevel[t.Name]; !ok {
			fmt.Fprintf(sb, "(declare-const %s %s)\n", smtName(t.Name), sortName(t.W))
			s.declLevel[t.Name] = s.level
			s.scopes[s.level] = append(s.scopes[s.level], t.Name)
		}
		return
	case OpUF:
		if _, ok := s.declLevel["uf:"+t.Name]; !ok {
			sig := s.tb.ufSigs[t.Name]
			var as []string
			for _, w := range sig.args {
				as = append(as, sortName(w))
			}
			fmt.Fprintf(sb, "(declare-fun %s (%s) %s)\n", smtName(t.Name), strings.Join(as, " "), sortName(sig.ret))
			s.declLevel["uf:"+t.Name] = s.level
			s.scopes[s.level] = append(s.scopes[s.level], "uf:"+t.Name)
		}
	}
	for _, a := range t.Args {
		s.prepare(a, sb, seen)
	}
	if t.size > inlineSize {
		fmt.Fprintf(sb, "(define-fun t%d () %s ", t.ID, sortName(t.W))
		t.write(sb, s.shadow, 0)
		sb.WriteString(")\n")
		s.shadow[t.ID] = true
		s.defScopes[s.level] = append(s.defScopes[s.level], t.ID)
	}
}

func (s *Solver) prepareAll(t *Term, sb *strings.Builder) {
	s.prepare(t, sb, map[uint32]bool{})
}

func (s *Solver) termStr(t *Term) string {
	var sb strings.Builder
	s.prepareAll(t, &sb)
	s.send(sb.String())
	if s.shadow[t.ID] {
		return fmt.Sprintf("t%d", t.ID)
	}
	var sb2 strings.Builder
	t.write(&sb2, s.shadow, 0)
	return sb2.String()
}

// Assert adds t to the current scope.
func (s *Solver) Assert(t *Term) {
	if t.IsTrue() {
		return
	}
	str := s.termStr(t)
	s.send("(assert " + str + ")\n")
}

func (s *Solver) readLine() (string, error) {
	line, err := s.out.ReadString('\n')
	return strings.TrimSpace(line), err
}

// Check runs check-sat: first the incremental core with a short time limit,
// then (on unknown) a non-incremental tactic pipeline with the full limit —
// z3's incremental mode skips solve-eqs and can take minutes on adder chains
// that the tactic pipeline decides in milliseconds.
func (s *Solver) Check() Result {
	if strings.HasPrefix(s.Bin, "cvc5") {
		return s.check1("(check-sat)\n", true)
	}
	s.send(fmt.Sprintf("(set-option :timeout %d)\n", s.QuickMS))
	r := s.check1("(check-sat)\n", false)
	if r == Unknown {
		s.Fallbacks++
		s.send(fmt.Sprintf("(set-option :timeout %d)\n", s.TimeoutMS))
		r = s.check1("(check-sat-using (then simplify solve-eqs smt))\n", true)
	}
	// the limit must not apply to push/pop/assert (z3 reports "push canceled")
	s.send("(set-option :timeout 4294967295)\n")
	return r
}

func (s *Solver) check1(cmd string, final bool) Result {
	t0 := time.Now()
	s.send(cmd)
	for {
		line, err := s.readLine()
		if err != nil {
			s.ErrSeen = "solver died: " + err.Error()
			s.NUnknown++
			s.Time += time.Since(t0)
			return Unknown
		}
		switch line {
		case "sat":
			s.NSat++
			s.Time += time.Since(t0)
			return Sat
		case "unsat":
			s.NUnsat++
			s.Time += time.Since(t0)
			return Unsat
		case "unknown", "timeout":
			if final {
				s.NUnknown++
			}
			s.Time += time.Since(t0)
			return Unknown
		case "":
			continue
		default:
			if strings.HasPrefix(line, "(error") {
				s.ErrSeen = line
			}
			// other chatter is ignored
		}
	}
}

// CheckWith checks the current assertions plus extra (in a temporary scope).
func (s *Solver) CheckWith(extra ...*Term) Result {
	s.Push()
	for _, e := range extra {
		s.Assert(e)
	}
	r := s.Check()
	s.Pop()
	return r
}

// readSexp reads one balanced s-expression from the solver output.
func (s *Solver) readSexp() (string, error) {
	var sb strings.Builder
	depth := 0
	started := false
	inBar := false
	inStr := false
	for {
		c, err := s.out.ReadByte()
		if err != nil {
			return sb.String(), err
		}
		if !started && (c == ' ' || c == '\n' || c == '\r' || c == '\t') {
			continue
		}
		started = true
		sb.WriteByte(c)
		switch {
		case inBar:
			if c == '|' {
				inBar = false
			}
		case inStr:
			if c == '"' {
				inStr = false
			}
		case c == '|':
			inBar = true
		case c == '"':
			inStr = true
		case c == '(':
			depth++
		case c == ')':
			depth--
		}
		if started && depth == 0 && !inBar && !inStr {
			if c == ')' || c == '\n' {
				return strings.TrimSpace(sb.String()), nil
			}
			// atom: read to end of line
			if c != '(' {
				rest, _ := s.out.ReadString('\n')
				sb.WriteString(rest)
				return strings.TrimSpace(sb.String()), nil
			}
		}
	}
}

// Values returns the model values of the given terms. Must follow a Sat check
// in the same scope (use ModelWith).
func (s *Solver) values(ts []*Term) ([]uint64, error) {
	out := make([]uint64, len(ts))
	const chunk = 200
	for i := 0; i < len(ts); i += chunk {
		j := i + chunk
		if j > len(ts) {
			j = len(ts)
		}
		var names []string
		for _, t := range ts[i:j] {
			names = append(names, s.termStr(t))
		}
		s.send("(get-value (" + strings.Join(names, " ") + "))\n")
		sexp, err := s.readSexp()
		if err != nil {
			return nil, err
		}
		if strings.HasPrefix(sexp, "(error") {
			return nil, fmt.Errorf("get-value: %s", sexp)
		}
		vals, err := parseValues(sexp, j-i)
		if err != nil {
			return nil, fmt.Errorf("%v in %q", err, sexp)
		}
		copy(out[i:j], vals)
	}
	return out, nil
}

// ModelWith checks assertions+extra and, if sat, returns values of ts.
func (s *Solver) ModelWith(extra []*Term, ts []*Term) (Result, []uint64, error) {
	s.Push()
	defer s.Pop()
	for _, e := range extra {
		s.Assert(e)
	}
	r := s.Check()
	if r != Sat {
		return r, nil, nil
	}
	v, err := s.values(ts)
	return r, v, err
}

// parseValues extracts the value literals from "((t v) (t v) ...)" in order.
func parseValues(sexp string, n int) ([]uint64, error) {
	// tokenise respecting |..| and parens
	toks := tokenize(sexp)
	// grammar: ( ( term value ) ... )
	pos := 0
	expect := func(t string) error {
		if pos >= len(toks) || toks[pos] != t {
			return fmt.Errorf("expected %q at %d", t, pos)
		}
		pos++
		return nil
	}
	var skip func() error
	skip = func() error {
		if pos >= len(toks) {
			return fmt.Errorf("eof")
		}
		if toks[pos] == "(" {
			pos++
			for pos < len(toks) && toks[pos] != ")" {
				if err := skip(); err != nil {
					return err
				}
			}
			return expect(")")
		}
		pos++
		return nil
	}
	if err := expect("("); err != nil {
		return nil, err
	}
	var out []uint64
	for i := 0; i < n; i++ {
		if err := expect("("); err != nil {
			return nil, err
		}
		if err := skip(); err != nil { // the term
			return nil, err
		}
		// the value
		if pos >= len(toks) {
			return nil, fmt.Errorf("eof")
		}
		v, adv, err := parseLit(toks[pos:])
		if err != nil {
			return nil, err
		}
		pos += adv
		out = append(out, v)
		if err := expect(")"); err != nil {
			return nil, err
		}
	}
	return out, nil
}

func parseLit(toks []string) (uint64, int, error) {
	t := toks[0]
	switch {
	case t == "true":
		return 1, 1, nil
	case t == "false":
		return 0, 1, nil
	case strings.HasPrefix(t, "#x"):
		v, err := strconv.ParseUint(t[2:], 16, 64)
		return v, 1, err
	case strings.HasPrefix(t, "#b"):
		v, err := strconv.ParseUint(t[2:], 2, 64)
		return v, 1, err
	case t == "(" && len(toks) >= 5 && toks[1] == "_" && strings.HasPrefix(toks[2], "bv"):
		v, err := strconv.ParseUint(toks[2][2:], 10, 64)
		return v, 5, err
	}
	return 0, 0, fmt.Errorf("cannot parse literal %q", t)
}

func tokenize(s string) []string {
	var toks []string
	i := 0
	for i < len(s) {
		c := s[i]
		switch {
		case c == ' ' || c == '\n' || c == '\t' || c == '\r':
			i++
		case c == '(' || c == ')':
			toks = append(toks, string(c))
			i++
		case c == '|':
			j := strings.IndexByte(s[i+1:], '|')
			if j < 0 {
				j = len(s) - i - 2
			}
			toks = append(toks, s[i:i+j+2])
			i += j + 2
		default:
			j := i
			for j < len(s) && !strings.ContainsRune(" \n\t\r()", rune(s[j])) {
				j++
			}
			toks = append(toks, s[i:j])
			i = j
		}
	}
	return toks
}
