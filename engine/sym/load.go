package sym

import (
	"crypto/sha256"
	"fmt"
	"go/ast"
	"os"
	"path/filepath"
	"sort"
	"strings"

	"golang.org/x/tools/go/packages"
	"golang.org/x/tools/go/ssa"
	"golang.org/x/tools/go/ssa/ssautil"
)

// Program is a loaded, SSA-built program with the harness overlay.
type Program struct {
	Prog  *ssa.Program
	Pkgs  map[string]*ssa.Package
	Stubs map[string]*ssa.Function
	Src   map[string]string // overlay: virtual path -> real path
	Repo  string
}

// BuildOverlay maps the runtime and harness sources into the repository tree.
func BuildOverlay(repo, verif string) (map[string][]byte, map[string]string, error) {
	ov := map[string][]byte{}
	src := map[string]string{}
	add := func(real, virt string) error {
		b, err := os.ReadFile(real)
		if err != nil {
			return err
		}
		ov[virt] = b
		src[virt] = real
		return nil
	}
	rt, _ := filepath.Glob(filepath.Join(verif, "rt", "verifrt", "*.go"))
	for _, f := range rt {
		if err := add(f, filepath.Join(repo, "internal", "verifrt", filepath.Base(f))); err != nil {
			return nil, nil, err
		}
	}
	dirs, _ := os.ReadDir(filepath.Join(verif, "harness"))
	for _, d := range dirs {
		if !d.IsDir() {
			continue
		}
		target := filepath.Join(repo, strings.ReplaceAll(d.Name(), "__", "/"))
		if d.Name() == "root" {
			target = repo
		}
		fs, _ := filepath.Glob(filepath.Join(verif, "harness", d.Name(), "*.go"))
		for _, f := range fs {
			if err := add(f, filepath.Join(target, filepath.Base(f))); err != nil {
				return nil, nil, err
			}
		}
	}
	return ov, src, nil
}

// Load loads and builds the given package patterns from repo with the overlay.
func Load(repo, verif string, patterns []string) (*Program, error) {
	ov, src, err := BuildOverlay(repo, verif)
	if err != nil {
		return nil, err
	}
	cfg := &packages.Config{
		Mode:    packages.LoadAllSyntax,
		Dir:     repo,
		Overlay: ov,
		Env:     append(os.Environ(), "GOFLAGS=-mod=mod", "GOPROXY=off", "GOSUMDB=off", "GOTOOLCHAIN=local", "CGO_ENABLED=0"),
	}
	patterns = append(patterns, RT)
	pkgs, err := packages.Load(cfg, patterns...)
	if err != nil {
		return nil, err
	}
	var errs []string
	packages.Visit(pkgs, nil, func(p *packages.Package) {
		for _, e := range p.Errors {
			errs = append(errs, e.Error())
		}
	})
	if len(errs) > 0 {
		if len(errs) > 15 {
			errs = errs[:15]
		}
		return nil, fmt.Errorf("HARNESS-BUILD-ERROR:\n%s", strings.Join(errs, "\n"))
	}
	prog, _ := ssautil.AllPackages(pkgs, ssa.InstantiateGenerics)
	prog.Build()
	p := &Program{Prog: prog, Pkgs: map[string]*ssa.Package{}, Stubs: map[string]*ssa.Function{}, Src: src, Repo: repo}
	for _, sp := range prog.AllPackages() {
		p.Pkgs[sp.Pkg.Path()] = sp
	}
	// collect //verif:stub directives from the runtime package
	if rt := p.Pkgs[RT]; rt != nil {
		for _, m := range rt.Members {
			fn, ok := m.(*ssa.Function)
			if !ok {
				continue
			}
			fd, ok := fn.Syntax().(*ast.FuncDecl)
			if !ok || fd.Doc == nil {
				continue
			}
			for _, c := range fd.Doc.List {
				if strings.HasPrefix(c.Text, "//verif:stub ") {
					p.Stubs[strings.TrimSpace(strings.TrimPrefix(c.Text, "//verif:stub "))] = fn
				}
			}
		}
	}
	return p, nil
}

// FuncHashes returns name -> short source hash for functions seen, restricted
// to the module under test.
func (p *Program) FuncHashes(seen map[string]bool) map[string]string {
	out := map[string]string{}
	filecache := map[string][]byte{}
	var visit func(fn *ssa.Function)
	visit = func(fn *ssa.Function) {
		name := fn.String()
		if !seen[name] {
			return
		}
		syn := fn.Syntax()
		if syn == nil {
			out[name] = "-"
			return
		}
		pos, end := p.Prog.Fset.Position(syn.Pos()), p.Prog.Fset.Position(syn.End())
		b, ok := filecache[pos.Filename]
		if !ok {
			if real, isov := p.Src[pos.Filename]; isov {
				b, _ = os.ReadFile(real)
			} else {
				b, _ = os.ReadFile(pos.Filename)
			}
			filecache[pos.Filename] = b
		}
		if pos.Offset < len(b) && end.Offset <= len(b) && pos.Offset < end.Offset {
			h := sha256.Sum256(b[pos.Offset:end.Offset])
			out[name] = fmt.Sprintf("%x", h[:6])
		} else {
			out[name] = "-"
		}
	}
	for fn := range ssautil.AllFunctions(p.Prog) {
		visit(fn)
	}
	return out
}

// SortedKeys is a small helper.
func SortedKeys(m map[string]bool) []string {
	var out []string
	for k := range m {
		out = append(out, k)
	}
	sort.Strings(out)
	return out
}

// NewExplorerFor prepares an explorer for pkg.fn.
func (p *Program) NewExplorerFor(pkgPath, fn string) (*Explorer, error) {
	sp := p.Pkgs[pkgPath]
	if sp == nil {
		return nil, fmt.Errorf("package %s not loaded", pkgPath)
	}
	f := sp.Func(fn)
	if f == nil {
		return nil, fmt.Errorf("harness function %s.%s not found", pkgPath, fn)
	}
	ex := NewExplorer(p.Prog, f)
	ex.Harness = fn
	for k, v := range p.Stubs {
		ex.stubs[k] = v
	}
	for _, ip := range []string{
		"github.com/superfly/litefs/...", "github.com/superfly/litefs", "github.com/superfly/ltx",
		"errors", "io", "io/fs", "internal/oserror", "context", "bufio", "bytes", "strconv",
		"encoding/binary", "path/filepath", "sort", "strings", "unicode/utf8", "path", "net/url",
		"net/textproto", "mime", "vendor/golang.org/x/net/http/httpguts", "golang.org/x/net/http/httpguts", "net/http/internal/ascii", "hash/crc64", "encoding/hex", "encoding/base64", "math/rand", "unicode",
	} {
		ex.initPkgs[ip] = true
	}
	return ex, nil
}

// SetTrace toggles call tracing.
func (ex *Explorer) SetTrace(b bool) { ex.traceCalls = b }

// SkipGo makes go statements whose callee has one of these prefixes no-ops.
func (ex *Explorer) SkipGo(prefixes ...string) { ex.skipGoPref = append(ex.skipGoPref, prefixes...) }
