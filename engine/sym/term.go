// Package sym is the symbolic executor ("symgo"): Go SSA -> SMT-LIB2.
package sym

import (
	"fmt"
	"math/bits"
	"sort"
	"strings"
)

// Op is a term operator.
type Op uint8

const (
	OpConst Op = iota
	OpVar
	OpNot
	OpAnd
	OpOr
	OpEq
	OpIte
	OpAdd
	OpSub
	OpMul
	OpUDiv
	OpURem
	OpSDiv
	OpSRem
	OpBAnd
	OpBOr
	OpBXor
	OpBNot
	OpNeg
	OpShl
	OpLShr
	OpAShr
	OpULt
	OpULe
	OpSLt
	OpSLe
	OpConcat
	OpExtract
	OpSext
	OpUF
)

var opSMT = map[Op]string{
	OpNot: "not", OpAnd: "and", OpOr: "or", OpEq: "=", OpIte: "ite",
	OpAdd: "bvadd", OpSub: "bvsub", OpMul: "bvmul", OpUDiv: "bvudiv", OpURem: "bvurem",
	OpSDiv: "bvsdiv", OpSRem: "bvsrem", OpBAnd: "bvand", OpBOr: "bvor", OpBXor: "bvxor",
	OpBNot: "bvnot", OpNeg: "bvneg", OpShl: "bvshl", OpLShr: "bvlshr", OpAShr: "bvashr",
	OpULt: "bvult", OpULe: "bvule", OpSLt: "bvslt", OpSLe: "bvsle", OpConcat: "concat",
}

// Term is a hash-consed SMT term. W==0 means Bool; otherwise a bit-vector of
// width W (1..64).
type Term struct {
	Op   Op
	W    int
	Args []*Term
	Val  uint64 // OpConst
	Name string // OpVar, OpUF
	Hi   int    // OpExtract
	Lo   int
	ID   uint32
	size int32 // tree size (capped)
}

func (t *Term) IsConst() bool { return t.Op == OpConst }
func (t *Term) IsBool() bool  { return t.W == 0 }
func (t *Term) IsTrue() bool  { return t.Op == OpConst && t.W == 0 && t.Val == 1 }
func (t *Term) IsFalse() bool { return t.Op == OpConst && t.W == 0 && t.Val == 0 }

// TB is a term builder with a hash-consing table. Not goroutine-safe: one per
// worker.
type TB struct {
	tab    map[string]*Term
	nextID uint32
	T, F   *Term
	ufSigs map[string]ufSig
	keybuf []byte
}

type ufSig struct {
	args []int
	ret  int
}

func NewTB() *TB {
	tb := &TB{tab: make(map[string]*Term, 1<<12), ufSigs: map[string]ufSig{}}
	tb.T = tb.mk(&Term{Op: OpConst, W: 0, Val: 1})
	tb.F = tb.mk(&Term{Op: OpConst, W: 0, Val: 0})
	return tb
}

func mask(w int) uint64 {
	if w >= 64 {
		return ^uint64(0)
	}
	return (uint64(1) << uint(w)) - 1
}

func (tb *TB) mk(t *Term) *Term {
	b := tb.keybuf[:0]
	b = append(b, byte(t.Op), byte(t.W))
	switch t.Op {
	case OpConst:
		for i := 0; i < 8; i++ {
			b = append(b, byte(t.Val>>(8*uint(i))))
		}
	case OpVar:
		b = append(b, t.Name...)
	case OpUF:
		b = append(b, t.Name...)
		b = append(b, 0)
	case OpExtract:
		b = append(b, byte(t.Hi), byte(t.Lo))
	}
	for _, a := range t.Args {
		b = append(b, byte(a.ID), byte(a.ID>>8), byte(a.ID>>16), byte(a.ID>>24))
	}
	tb.keybuf = b
	if x, ok := tb.tab[string(b)]; ok {
		return x
	}
	tb.nextID++
	t.ID = tb.nextID
	sz := int32(1)
	for _, a := range t.Args {
		sz += a.size
		if sz > 1<<20 {
			sz = 1 << 20
		}
	}
	t.size = sz
	tb.tab[string(b)] = t
	return t
}

// Const returns a bit-vector constant.
func (tb *TB) Const(w int, v uint64) *Term {
	if w <= 0 || w > 64 {
		panic(fmt.Sprintf("bad const width %d", w))
	}
	return tb.mk(&Term{Op: OpConst, W: w, Val: v & mask(w)})
}

func (tb *TB) Bool(b bool) *Term {
	if b {
		return tb.T
	}
	return tb.F
}

// Var returns the variable with this name (w==0: Bool).
func (tb *TB) Var(name string, w int) *Term {
	return tb.mk(&Term{Op: OpVar, W: w, Name: name})
}

func sext64(v uint64, w int) int64 {
	if w >= 64 {
		return int64(v)
	}
	s := uint(64 - w)
	return int64(v<<s) >> s
}

func (tb *TB) Not(a *Term) *Term {
	if a.IsConst() {
		return tb.Bool(a.Val == 0)
	}
	if a.Op == OpNot {
		return a.Args[0]
	}
	return tb.mk(&Term{Op: OpNot, Args: []*Term{a}})
}

func (tb *TB) And(as ...*Term) *Term {
	var out []*Term
	for _, a := range as {
		if a.IsConst() {
			if a.Val == 0 {
				return tb.F
			}
			continue
		}
		if a.Op == OpAnd {
			out = append(out, a.Args...)
		} else {
			out = append(out, a)
		}
	}
	out = dedup(out)
	for _, a := range out {
		if a.Op == OpNot {
			for _, b := range out {
				if b == a.Args[0] {
					return tb.F
				}
			}
		}
	}
	switch len(out) {
	case 0:
		return tb.T
	case 1:
		return out[0]
	}
	return tb.mk(&Term{Op: OpAnd, Args: out})
}

func (tb *TB) Or(as ...*Term) *Term {
	var out []*Term
	for _, a := range as {
		if a.IsConst() {
			if a.Val == 1 {
				return tb.T
			}
			continue
		}
		if a.Op == OpOr {
			out = append(out, a.Args...)
		} else {
			out = append(out, a)
		}
	}
	out = dedup(out)
	for _, a := range out {
		if a.Op == OpNot {
			for _, b := range out {
				if b == a.Args[0] {
					return tb.T
				}
			}
		}
	}
	switch len(out) {
	case 0:
		return tb.F
	case 1:
		return out[0]
	}
	return tb.mk(&Term{Op: OpOr, Args: out})
}

func dedup(ts []*Term) []*Term {
	if len(ts) < 2 {
		return ts
	}
	seen := make(map[uint32]bool, len(ts))
	out := ts[:0:0]
	for _, t := range ts {
		if !seen[t.ID] {
			seen[t.ID] = true
			out = append(out, t)
		}
	}
	return out
}

func (tb *TB) Implies(a, b *Term) *Term { return tb.Or(tb.Not(a), b) }

func (tb *TB) Eq(a, b *Term) *Term {
	if a.W != b.W {
		panic(fmt.Sprintf("Eq width mismatch %d vs %d: %s / %s", a.W, b.W, a, b))
	}
	if a == b {
		return tb.T
	}
	if a.IsConst() && b.IsConst() {
		return tb.Bool(a.Val == b.Val)
	}
	if a.W == 0 {
		if a.IsConst() {
			a, b = b, a
		}
		if b.IsConst() {
			if b.Val == 1 {
				return a
			}
			return tb.Not(a)
		}
	}
	if a.IsConst() {
		a, b = b, a
	}
	// Eq(ite(c,k1,k2), k)
	if b.IsConst() && a.Op == OpIte && a.Args[1].IsConst() && a.Args[2].IsConst() {
		t1, t2 := a.Args[1].Val == b.Val, a.Args[2].Val == b.Val
		switch {
		case t1 && t2:
			return tb.T
		case t1:
			return a.Args[0]
		case t2:
			return tb.Not(a.Args[0])
		default:
			return tb.F
		}
	}
	// cancel a common addend / xor operand: a+b == a  <=>  b == 0
	for _, op := range []Op{OpAdd, OpBXor} {
		x, y := a, b
		for k := 0; k < 2; k++ {
			if y.Op == op {
				if y.Args[0] == x {
					return tb.Eq(y.Args[1], tb.Const(x.W, 0))
				}
				if y.Args[1] == x {
					return tb.Eq(y.Args[0], tb.Const(x.W, 0))
				}
				if x.Op == op {
					for i := 0; i < 2; i++ {
						for j := 0; j < 2; j++ {
							if x.Args[i] == y.Args[j] {
								return tb.Eq(x.Args[1-i], y.Args[1-j])
							}
						}
					}
				}
			}
			x, y = y, x
		}
	}
	// Eq(x | c, k) is false when k lacks a bit of c
	if b.IsConst() && a.Op == OpBOr && a.Args[1].IsConst() && (b.Val&a.Args[1].Val) != a.Args[1].Val {
		return tb.F
	}
	// Eq(concat(parts), const): split into per-part equalities when any part is const
	if b.IsConst() && a.Op == OpConcat {
		var cs []*Term
		off := a.W
		for _, p := range a.Args {
			off -= p.W
			pc := tb.Const(p.W, b.Val>>uint(off))
			cs = append(cs, tb.Eq(p, pc))
		}
		return tb.And(cs...)
	}
	if a.ID > b.ID {
		a, b = b, a
	}
	return tb.mk(&Term{Op: OpEq, Args: []*Term{a, b}})
}

func (tb *TB) Ite(c, a, b *Term) *Term {
	if a.W != b.W {
		panic("Ite width mismatch")
	}
	if c.IsConst() {
		if c.Val == 1 {
			return a
		}
		return b
	}
	if a == b {
		return a
	}
	if a.W == 0 {
		if a.IsConst() && b.IsConst() {
			if a.Val == 1 {
				return c
			}
			return tb.Not(c)
		}
		if a.IsTrue() {
			return tb.Or(c, b)
		}
		if a.IsFalse() {
			return tb.And(tb.Not(c), b)
		}
		if b.IsTrue() {
			return tb.Or(tb.Not(c), a)
		}
		if b.IsFalse() {
			return tb.And(c, a)
		}
	}
	if c.Op == OpNot {
		return tb.Ite(c.Args[0], b, a)
	}
	return tb.mk(&Term{Op: OpIte, W: a.W, Args: []*Term{c, a, b}})
}

func (tb *TB) bin(op Op, a, b *Term) *Term {
	if a.W != b.W || a.W == 0 {
		panic(fmt.Sprintf("binop %v width mismatch %d vs %d", opSMT[op], a.W, b.W))
	}
	w := a.W
	if a.IsConst() && b.IsConst() {
		if v, ok := foldBin(op, w, a.Val, b.Val); ok {
			return tb.Const(w, v)
		}
	}
	switch op {
	case OpAdd:
		if a.IsConst() {
			a, b = b, a
		}
		if b.IsConst() && b.Val == 0 {
			return a
		}
		// (x + c1) + c2
		if b.IsConst() && a.Op == OpAdd && a.Args[1].IsConst() {
			return tb.bin(OpAdd, a.Args[0], tb.Const(w, a.Args[1].Val+b.Val))
		}
	case OpSub:
		if b.IsConst() && b.Val == 0 {
			return a
		}
		if a == b {
			return tb.Const(w, 0)
		}
		if b.IsConst() {
			return tb.bin(OpAdd, a, tb.Const(w, -b.Val))
		}
	case OpMul:
		if a.IsConst() {
			a, b = b, a
		}
		if b.IsConst() {
			if b.Val == 0 {
				return b
			}
			if b.Val == 1 {
				return a
			}
			if bits.OnesCount64(b.Val) == 1 {
				return tb.Shl(a, tb.Const(w, uint64(bits.TrailingZeros64(b.Val))))
			}
		}
	case OpUDiv:
		if b.IsConst() && b.Val == 1 {
			return a
		}
		if b.IsConst() && bits.OnesCount64(b.Val) == 1 {
			return tb.LShr(a, tb.Const(w, uint64(bits.TrailingZeros64(b.Val))))
		}
	case OpURem:
		if b.IsConst() && b.Val == 1 {
			return tb.Const(w, 0)
		}
		if b.IsConst() && bits.OnesCount64(b.Val) == 1 {
			return tb.BAnd(a, tb.Const(w, b.Val-1))
		}
	}
	return tb.mk(&Term{Op: op, W: w, Args: []*Term{a, b}})
}

func foldBin(op Op, w int, x, y uint64) (uint64, bool) {
	switch op {
	case OpAdd:
		return x + y, true
	case OpSub:
		return x - y, true
	case OpMul:
		return x * y, true
	case OpUDiv:
		if y == 0 {
			return mask(w), true
		}
		return x / y, true
	case OpURem:
		if y == 0 {
			return x, true
		}
		return x % y, true
	case OpSDiv:
		sx, sy := sext64(x, w), sext64(y, w)
		if sy == 0 {
			if sx < 0 {
				return 1, true
			}
			return mask(w), true
		}
		if sy == -1 {
			return uint64(-sx), true
		}
		return uint64(sx / sy), true
	case OpSRem:
		sx, sy := sext64(x, w), sext64(y, w)
		if sy == 0 {
			return x, true
		}
		if sy == -1 {
			return 0, true
		}
		return uint64(sx % sy), true
	case OpBAnd:
		return x & y, true
	case OpBOr:
		return x | y, true
	case OpBXor:
		return x ^ y, true
	case OpShl:
		if y >= uint64(w) {
			return 0, true
		}
		return x << y, true
	case OpLShr:
		if y >= uint64(w) {
			return 0, true
		}
		return x >> y, true
	case OpAShr:
		sx := sext64(x, w)
		if y >= uint64(w) {
			y = uint64(w - 1)
		}
		return uint64(sx >> y), true
	}
	return 0, false
}

func (tb *TB) Add(a, b *Term) *Term  { return tb.bin(OpAdd, a, b) }
func (tb *TB) Sub(a, b *Term) *Term  { return tb.bin(OpSub, a, b) }
func (tb *TB) Mul(a, b *Term) *Term  { return tb.bin(OpMul, a, b) }
func (tb *TB) UDiv(a, b *Term) *Term { return tb.bin(OpUDiv, a, b) }
func (tb *TB) URem(a, b *Term) *Term { return tb.bin(OpURem, a, b) }
func (tb *TB) SDiv(a, b *Term) *Term { return tb.bin(OpSDiv, a, b) }
func (tb *TB) SRem(a, b *Term) *Term { return tb.bin(OpSRem, a, b) }

func (tb *TB) BNot(a *Term) *Term {
	if a.IsConst() {
		return tb.Const(a.W, ^a.Val)
	}
	if a.Op == OpBNot {
		return a.Args[0]
	}
	return tb.mk(&Term{Op: OpBNot, W: a.W, Args: []*Term{a}})
}

func (tb *TB) Neg(a *Term) *Term {
	if a.IsConst() {
		return tb.Const(a.W, -a.Val)
	}
	return tb.mk(&Term{Op: OpNeg, W: a.W, Args: []*Term{a}})
}

// contiguous reports whether m is a single run of ones [hi..lo].
func contiguous(m uint64) (hi, lo int, ok bool) {
	if m == 0 {
		return 0, 0, false
	}
	lo = bits.TrailingZeros64(m)
	x := m >> uint(lo)
	if x&(x+1) != 0 {
		return 0, 0, false
	}
	hi = lo + bits.Len64(x) - 1
	return hi, lo, true
}

func (tb *TB) BAnd(a, b *Term) *Term {
	if a.IsConst() {
		a, b = b, a
	}
	w := a.W
	if b.IsConst() && !a.IsConst() {
		if b.Val == 0 {
			return b
		}
		if b.Val == mask(w) {
			return a
		}
		if hi, lo, ok := contiguous(b.Val); ok {
			parts := []*Term{}
			if hi < w-1 {
				parts = append(parts, tb.Const(w-1-hi, 0))
			}
			parts = append(parts, tb.Extract(a, hi, lo))
			if lo > 0 {
				parts = append(parts, tb.Const(lo, 0))
			}
			return tb.Concat(parts...)
		}
	}
	if a == b {
		return a
	}
	return tb.bin(OpBAnd, a, b)
}

// segs returns the concat parts of t (t itself if not a concat).
func segs(t *Term) []*Term {
	if t.Op == OpConcat {
		return t.Args
	}
	return []*Term{t}
}

func isZero(t *Term) bool { return t.IsConst() && t.Val == 0 }

// mergeDisjoint tries to combine a|b (or a^b) when, aligned on common segment
// boundaries, at least one side is a zero constant in every segment.
func (tb *TB) mergeDisjoint(a, b *Term) *Term {
	if a.Op != OpConcat && b.Op != OpConcat {
		return nil
	}
	w := a.W
	// boundaries: set of bit positions where a segment starts (from top)
	cut := map[int]bool{}
	for _, t := range []*Term{a, b} {
		off := w
		for _, p := range segs(t) {
			off -= p.W
			cut[off] = true
		}
	}
	var cuts []int
	for c := range cut {
		cuts = append(cuts, c)
	}
	sort.Sort(sort.Reverse(sort.IntSlice(cuts)))
	hi := w - 1
	var parts []*Term
	for _, lo := range cuts {
		pa, pb := tb.Extract(a, hi, lo), tb.Extract(b, hi, lo)
		switch {
		case isZero(pa):
			parts = append(parts, pb)
		case isZero(pb):
			parts = append(parts, pa)
		default:
			return nil
		}
		hi = lo - 1
	}
	return tb.Concat(parts...)
}

func (tb *TB) BOr(a, b *Term) *Term {
	if a.IsConst() {
		a, b = b, a
	}
	if b.IsConst() && !a.IsConst() {
		if b.Val == 0 {
			return a
		}
		if b.Val == mask(a.W) {
			return b
		}
	}
	if a == b {
		return a
	}
	if !a.IsConst() {
		if m := tb.mergeDisjoint(a, b); m != nil {
			return m
		}
		// c | (c | x) = c | x
		if b.IsConst() && a.Op == OpBOr && a.Args[1].IsConst() {
			return tb.BOr(a.Args[0], tb.Const(a.W, a.Args[1].Val|b.Val))
		}
	}
	return tb.bin(OpBOr, a, b)
}

func (tb *TB) BXor(a, b *Term) *Term {
	if a.IsConst() {
		a, b = b, a
	}
	if b.IsConst() && b.Val == 0 {
		return a
	}
	if a == b {
		return tb.Const(a.W, 0)
	}
	return tb.bin(OpBXor, a, b)
}

func (tb *TB) Shl(a, n *Term) *Term {
	if n.IsConst() && !a.IsConst() {
		c := int(n.Val)
		if n.Val >= uint64(a.W) {
			return tb.Const(a.W, 0)
		}
		if c == 0 {
			return a
		}
		return tb.Concat(tb.Extract(a, a.W-1-c, 0), tb.Const(c, 0))
	}
	return tb.bin(OpShl, a, n)
}

func (tb *TB) LShr(a, n *Term) *Term {
	if n.IsConst() && !a.IsConst() {
		c := int(n.Val)
		if n.Val >= uint64(a.W) {
			return tb.Const(a.W, 0)
		}
		if c == 0 {
			return a
		}
		return tb.Concat(tb.Const(c, 0), tb.Extract(a, a.W-1, c))
	}
	return tb.bin(OpLShr, a, n)
}

func (tb *TB) AShr(a, n *Term) *Term {
	if n.IsConst() && n.Val == 0 {
		return a
	}
	return tb.bin(OpAShr, a, n)
}

func (tb *TB) cmp(op Op, a, b *Term) *Term {
	if a.W != b.W || a.W == 0 {
		panic(fmt.Sprintf("cmp width mismatch %d vs %d", a.W, b.W))
	}
	if a.IsConst() && b.IsConst() {
		switch op {
		case OpULt:
			return tb.Bool(a.Val < b.Val)
		case OpULe:
			return tb.Bool(a.Val <= b.Val)
		case OpSLt:
			return tb.Bool(sext64(a.Val, a.W) < sext64(b.Val, b.W))
		case OpSLe:
			return tb.Bool(sext64(a.Val, a.W) <= sext64(b.Val, b.W))
		}
	}
	if a == b {
		return tb.Bool(op == OpULe || op == OpSLe)
	}
	switch op {
	case OpULt:
		if isZero(b) {
			return tb.F
		}
		if b.IsConst() && b.Val == 1 {
			return tb.Eq(a, tb.Const(a.W, 0))
		}
		if isZero(a) {
			return tb.Not(tb.Eq(b, a))
		}
	case OpULe:
		if isZero(a) {
			return tb.T
		}
		if isZero(b) {
			return tb.Eq(a, b)
		}
		if b.IsConst() && b.Val == mask(b.W) {
			return tb.T
		}
	}
	// zero-extended operands compared against small constants etc. are left to the solver.
	return tb.mk(&Term{Op: op, Args: []*Term{a, b}})
}

func (tb *TB) ULt(a, b *Term) *Term { return tb.cmp(OpULt, a, b) }
func (tb *TB) ULe(a, b *Term) *Term { return tb.cmp(OpULe, a, b) }
func (tb *TB) SLt(a, b *Term) *Term { return tb.cmp(OpSLt, a, b) }
func (tb *TB) SLe(a, b *Term) *Term { return tb.cmp(OpSLe, a, b) }

// Extract returns bits hi..lo of a.
func (tb *TB) Extract(a *Term, hi, lo int) *Term {
	if hi < lo || lo < 0 || hi >= a.W {
		panic(fmt.Sprintf("bad extract [%d:%d] of width %d", hi, lo, a.W))
	}
	if lo == 0 && hi == a.W-1 {
		return a
	}
	w := hi - lo + 1
	switch a.Op {
	case OpConst:
		return tb.Const(w, a.Val>>uint(lo))
	case OpExtract:
		return tb.Extract(a.Args[0], a.Lo+hi, a.Lo+lo)
	case OpConcat:
		off := a.W
		var parts []*Term
		for _, p := range a.Args {
			phi := off - 1
			off -= p.W
			plo := off
			if phi < lo || plo > hi {
				continue
			}
			h, l := hi, lo
			if h > phi {
				h = phi
			}
			if l < plo {
				l = plo
			}
			parts = append(parts, tb.Extract(p, h-plo, l-plo))
		}
		return tb.Concat(parts...)
	case OpSext:
		x := a.Args[0]
		if hi < x.W {
			return tb.Extract(x, hi, lo)
		}
	case OpIte:
		if a.Args[1].IsConst() || a.Args[2].IsConst() {
			return tb.Ite(a.Args[0], tb.Extract(a.Args[1], hi, lo), tb.Extract(a.Args[2], hi, lo))
		}
	case OpBAnd, OpBOr, OpBXor:
		// push extraction through bitwise ops when it lands on something simple
		if a.size > 256 {
			break
		}
		x, y := tb.Extract(a.Args[0], hi, lo), tb.Extract(a.Args[1], hi, lo)
		if x.IsConst() || y.IsConst() || x.Op == OpVar || y.Op == OpVar || x.size+y.size < a.size {
			switch a.Op {
			case OpBAnd:
				return tb.BAnd(x, y)
			case OpBOr:
				return tb.BOr(x, y)
			default:
				return tb.BXor(x, y)
			}
		}
	}
	return tb.mk(&Term{Op: OpExtract, W: w, Args: []*Term{a}, Hi: hi, Lo: lo})
}

// Concat concatenates parts, most significant first.
func (tb *TB) Concat(parts ...*Term) *Term {
	var flat []*Term
	for _, p := range parts {
		if p.W == 0 {
			panic("concat of bool")
		}
		if p.Op == OpConcat {
			flat = append(flat, p.Args...)
		} else {
			flat = append(flat, p)
		}
	}
	// merge adjacent
	var out []*Term
	for _, p := range flat {
		if n := len(out); n > 0 {
			q := out[n-1]
			if q.IsConst() && p.IsConst() && q.W+p.W <= 64 {
				out[n-1] = tb.Const(q.W+p.W, q.Val<<uint(p.W)|p.Val)
				continue
			}
			if q.Op == OpExtract && p.Op == OpExtract && q.Args[0] == p.Args[0] && q.Lo == p.Hi+1 {
				out[n-1] = tb.Extract(q.Args[0], q.Hi, p.Lo)
				continue
			}
		}
		out = append(out, p)
	}
	if len(out) == 1 {
		return out[0]
	}
	w := 0
	for _, p := range out {
		w += p.W
	}
	if w > 64 {
		panic(fmt.Sprintf("concat too wide: %d", w))
	}
	return tb.mk(&Term{Op: OpConcat, W: w, Args: out})
}

func (tb *TB) Zext(a *Term, w int) *Term {
	if w == a.W {
		return a
	}
	if w < a.W {
		return tb.Extract(a, w-1, 0)
	}
	return tb.Concat(tb.Const(w-a.W, 0), a)
}

func (tb *TB) Sext(a *Term, w int) *Term {
	if w == a.W {
		return a
	}
	if w < a.W {
		return tb.Extract(a, w-1, 0)
	}
	if a.IsConst() {
		return tb.Const(w, uint64(sext64(a.Val, a.W)))
	}
	// sign bit known zero?
	if a.Op == OpConcat && isZero(a.Args[0]) {
		return tb.Zext(a, w)
	}
	return tb.mk(&Term{Op: OpSext, W: w, Args: []*Term{a}})
}

// UF applies an uninterpreted function. The signature is fixed by first use.
func (tb *TB) UF(name string, ret int, args ...*Term) *Term {
	sig, ok := tb.ufSigs[name]
	if !ok {
		sig = ufSig{ret: ret}
		for _, a := range args {
			sig.args = append(sig.args, a.W)
		}
		tb.ufSigs[name] = sig
	} else {
		if sig.ret != ret || len(sig.args) != len(args) {
			panic("UF signature mismatch: " + name)
		}
	}
	return tb.mk(&Term{Op: OpUF, W: ret, Name: name, Args: append([]*Term(nil), args...)})
}

// BoolToBV converts a Bool to a 1/0 bit-vector of width w.
func (tb *TB) BoolToBV(b *Term, w int) *Term {
	return tb.Ite(b, tb.Const(w, 1), tb.Const(w, 0))
}

func sortName(w int) string {
	if w == 0 {
		return "Bool"
	}
	return fmt.Sprintf("(_ BitVec %d)", w)
}

func (t *Term) String() string {
	var sb strings.Builder
	t.write(&sb, nil, 0)
	s := sb.String()
	if len(s) > 600 {
		s = s[:600] + "..."
	}
	return s
}

func constSMT(t *Term) string {
	if t.W == 0 {
		if t.Val == 1 {
			return "true"
		}
		return "false"
	}
	if t.W%4 == 0 {
		return fmt.Sprintf("#x%0*x", t.W/4, t.Val)
	}
	return fmt.Sprintf("#b%0*b", t.W, t.Val)
}

func smtName(n string) string { return "|" + n + "|" }

// write prints t; named maps term IDs that have a define-fun to use instead.
func (t *Term) write(sb *strings.Builder, named map[uint32]bool, depth int) {
	if named != nil && depth > 0 && named[t.ID] {
		fmt.Fprintf(sb, "t%d", t.ID)
		return
	}
	switch t.Op {
	case OpConst:
		sb.WriteString(constSMT(t))
	case OpVar:
		sb.WriteString(smtName(t.Name))
	case OpExtract:
		fmt.Fprintf(sb, "((_ extract %d %d) ", t.Hi, t.Lo)
		t.Args[0].write(sb, named, depth+1)
		sb.WriteString(")")
	case OpSext:
		fmt.Fprintf(sb, "((_ sign_extend %d) ", t.W-t.Args[0].W)
		t.Args[0].write(sb, named, depth+1)
		sb.WriteString(")")
	case OpUF:
		if len(t.Args) == 0 {
			sb.WriteString(smtName(t.Name))
			return
		}
		sb.WriteString("(" + smtName(t.Name))
		for _, a := range t.Args {
			sb.WriteString(" ")
			a.write(sb, named, depth+1)
		}
		sb.WriteString(")")
	default:
		sb.WriteString("(" + opSMT[t.Op])
		for _, a := range t.Args {
			sb.WriteString(" ")
			a.write(sb, named, depth+1)
		}
		sb.WriteString(")")
	}
}

// Eval evaluates t under an assignment of variables and UF applications.
// uf is called for UF nodes with evaluated arguments.
func Eval(t *Term, vars map[string]uint64, uf func(name string, args []uint64) (uint64, bool), memo map[uint32]uint64) (uint64, bool) {
	if v, ok := memo[t.ID]; ok {
		return v, true
	}
	av := make([]uint64, len(t.Args))
	for i, a := range t.Args {
		v, ok := Eval(a, vars, uf, memo)
		if !ok {
			return 0, false
		}
		av[i] = v
	}
	var r uint64
	b2u := func(b bool) uint64 {
		if b {
			return 1
		}
		return 0
	}
	switch t.Op {
	case OpConst:
		r = t.Val
	case OpVar:
		v, ok := vars[t.Name]
		if !ok {
			v = 0
		}
		r = v & maskB(t.W)
	case OpNot:
		r = 1 - av[0]
	case OpAnd:
		r = 1
		for _, v := range av {
			r &= v
		}
	case OpOr:
		r = 0
		for _, v := range av {
			r |= v
		}
	case OpEq:
		r = b2u(av[0] == av[1])
	case OpIte:
		if av[0] == 1 {
			r = av[1]
		} else {
			r = av[2]
		}
	case OpBNot:
		r = ^av[0] & mask(t.W)
	case OpNeg:
		r = -av[0] & mask(t.W)
	case OpULt:
		r = b2u(av[0] < av[1])
	case OpULe:
		r = b2u(av[0] <= av[1])
	case OpSLt:
		r = b2u(sext64(av[0], t.Args[0].W) < sext64(av[1], t.Args[0].W))
	case OpSLe:
		r = b2u(sext64(av[0], t.Args[0].W) <= sext64(av[1], t.Args[0].W))
	case OpConcat:
		for i, a := range t.Args {
			r = r<<uint(a.W) | av[i]
		}
	case OpExtract:
		r = (av[0] >> uint(t.Lo)) & mask(t.W)
	case OpSext:
		r = uint64(sext64(av[0], t.Args[0].W)) & mask(t.W)
	case OpUF:
		v, ok := uf(t.Name, av)
		if !ok {
			return 0, false
		}
		r = v & maskB(t.W)
	default:
		v, ok := foldBin(t.Op, t.W, av[0], av[1])
		if !ok {
			return 0, false
		}
		r = v & mask(t.W)
	}
	memo[t.ID] = r
	return r, true
}

func maskB(w int) uint64 {
	if w == 0 {
		return 1
	}
	return mask(w)
}
