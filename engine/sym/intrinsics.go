package sym

import (
	"fmt"
	"go/token"
	"go/types"
	"hash/crc64"
	"path/filepath"
	"regexp"
	"strconv"
	"strings"

	"golang.org/x/tools/go/ssa"
)

// RT is the import path of the harness runtime package (overlay).
const RT = "github.com/superfly/litefs/internal/verifrt"

type intrinsic func(in *Interp, fr *frame, args []Value) Value

var intrinsics = map[string]intrinsic{}

func reg(name string, f intrinsic) { intrinsics[name] = f }

func str(in *Interp, v Value) string {
	switch s := v.(type) {
	case string:
		return s
	case *SymStr:
		return "<symbolic string>"
	}
	panic(in.unsupported(fmt.Sprintf("expected string, got %T", v)))
}

func cint(in *Interp, v Value, what string) int {
	return int(int64(in.concretize(v.(*Term), what)))
}

var crcTab = crc64.MakeTable(crc64.ISO)

func init() {
	// ---------- verifrt primitives ----------
	nondet := func(w int) intrinsic {
		return func(in *Interp, fr *frame, args []Value) Value {
			return in.freshVar(str(in, args[0]), w)
		}
	}
	reg(RT+".U64", nondet(64))
	reg(RT+".I64", nondet(64))
	reg(RT+".Int", nondet(64))
	reg(RT+".U32", nondet(32))
	reg(RT+".I32", nondet(32))
	reg(RT+".U16", nondet(16))
	reg(RT+".U8", nondet(8))
	reg(RT+".Bool", nondet(0))
	reg(RT+".Bytes", func(in *Interp, fr *frame, args []Value) Value {
		tag := str(in, args[0])
		n := cint(in, args[1], "Bytes len")
		a := make([]Value, n)
		for i := range a {
			a[i] = in.freshVar(fmt.Sprintf("%s[%d]", tag, i), 8)
		}
		return Slice{A: a}
	})
	reg(RT+".Choose", func(in *Interp, fr *frame, args []Value) Value {
		n := cint(in, args[1], "Choose n")
		v := in.Choose(n)
		if n > 1 {
			in.path.choiceTags = append(in.path.choiceTags, fmt.Sprintf("%s=%d/%d", str(in, args[0]), v, n))
		}
		return in.tb.Const(64, uint64(v))
	})
	reg(RT+".Assume", func(in *Interp, fr *frame, args []Value) Value {
		in.assume(args[0].(*Term))
		return nil
	})
	reg(RT+".Check", func(in *Interp, fr *frame, args []Value) Value {
		in.top = fr
		in.check(args[0].(*Term), str(in, args[1]))
		return nil
	})
	reg(RT+".Fail", func(in *Interp, fr *frame, args []Value) Value {
		in.top = fr
		in.check(in.tb.F, str(in, args[0]))
		return nil
	})
	reg(RT+".Reach", func(in *Interp, fr *frame, args []Value) Value {
		in.reach(str(in, args[0]))
		return nil
	})
	reg(RT+".Tier", func(in *Interp, fr *frame, args []Value) Value {
		return in.tb.Const(64, uint64(in.ex.Tier))
	})
	reg(RT+".LoopBound", func(in *Interp, fr *frame, args []Value) Value {
		in.loopBound = int32(cint(in, args[0], "LoopBound"))
		return nil
	})
	reg(RT+".SelectNondet", func(in *Interp, fr *frame, args []Value) Value {
		in.hostState["selectnondet"] = args[0].(*Term).IsTrue()
		return nil
	})
	reg(RT+".SelectNondetBudget", func(in *Interp, fr *frame, args []Value) Value {
		in.hostState["selectbudget"] = cint(in, args[0], "SelectNondetBudget")
		return nil
	})
	reg(RT+".Symbolic", func(in *Interp, fr *frame, args []Value) Value { return in.tb.T })
	reg(RT+".TempDir", func(in *Interp, fr *frame, args []Value) Value { return "/data" })
	reg(RT+".Stub", func(in *Interp, fr *frame, args []Value) Value {
		if in.stubs == nil {
			in.stubs = map[string]Value{}
		}
		fv := args[1].(Iface).V
		if fv == nil {
			delete(in.stubs, str(in, args[0]))
		} else {
			in.stubs[str(in, args[0])] = fv
		}
		return nil
	})
	reg(RT+".Note", func(in *Interp, fr *frame, args []Value) Value {
		in.note(str(in, args[0]))
		return nil
	})
	reg(RT+".IsConst", func(in *Interp, fr *frame, args []Value) Value {
		return in.tb.Bool(args[0].(*Term).IsConst())
	})
	reg(RT+".Concretize", func(in *Interp, fr *frame, args []Value) Value {
		t := args[0].(*Term)
		return in.tb.Const(t.W, in.concretize(t, "Concretize"))
	})
	reg(RT+".Ite64", func(in *Interp, fr *frame, args []Value) Value {
		return in.tb.Ite(args[0].(*Term), args[1].(*Term), args[2].(*Term))
	})
	reg(RT+".CRCFold", func(in *Interp, fr *frame, args []Value) Value {
		return in.crcFold(args[0].(*Term), args[1].(Slice).A)
	})
	reg(RT+".AllocLimit", func(in *Interp, fr *frame, args []Value) Value {
		in.hostState["alloclimit"] = args[0] // func(n int64) bool (closure) or nil
		return nil
	})
	reg(RT+".NewChanStruct", mkModelChan)
	reg(RT+".NewChanTime", mkModelChan)
	reg(RT+".Dummy", func(in *Interp, fr *frame, args []Value) Value {
		return Iface{T: dummyType, V: &Host{Kind: "dummy"}}
	})
	reg(RT+".BinSize", func(in *Interp, fr *frame, args []Value) Value {
		n := in.binSize(args[0].(Iface))
		return in.tb.Const(64, uint64(int64(n)))
	})
	reg(RT+".BinDecode", func(in *Interp, fr *frame, args []Value) Value {
		in.binDecode(args[0].(Slice).A, args[1].(*Term).IsTrue(), args[2].(Iface))
		return nil
	})
	reg(RT+".BinEncode", func(in *Interp, fr *frame, args []Value) Value {
		return Slice{A: in.binEncode(args[0].(*Term).IsTrue(), args[1].(Iface))}
	})
	reg(RT+".Sprintf", func(in *Interp, fr *frame, args []Value) Value {
		return in.sprintf(str(in, args[0]), args[1].(Slice).A)
	})
	reg(RT+".ErrorsAs", func(in *Interp, fr *frame, args []Value) Value {
		return in.errorsAs(fr, args[0].(Iface), args[1].(Iface))
	})
	reg(RT+".SortSlice", func(in *Interp, fr *frame, args []Value) Value {
		in.sortSlice(fr, args[0].(Iface), args[1])
		return nil
	})
	reg(RT+".TypeName", func(in *Interp, fr *frame, args []Value) Value {
		x := args[0].(Iface)
		if x.T == nil {
			return "<nil>"
		}
		return x.T.String()
	})
	reg(RT+".SetClock", func(in *Interp, fr *frame, args []Value) Value {
		in.hostState["clock"] = args[0].(*Term)
		return nil
	})

	// ---------- sync ----------
	reg("(*sync.Mutex).Lock", func(in *Interp, fr *frame, args []Value) Value {
		st := fieldPtr(in, args[0], 0)
		held := in.tb.Not(in.tb.Eq((*st).(*Term), in.tb.Const(32, 0)))
		if in.Branch(held) {
			in.top = fr
			in.reportViolation("check", "sync.Mutex locked while already held (self-deadlock / lock-set)", in.where(), in.stack())
			panic(&pathEnd{kind: "violation"})
		}
		*st = in.tb.Const(32, 1)
		return nil
	})
	reg("(*sync.Mutex).TryLock", func(in *Interp, fr *frame, args []Value) Value {
		st := fieldPtr(in, args[0], 0)
		free := in.tb.Eq((*st).(*Term), in.tb.Const(32, 0))
		if in.Branch(free) {
			*st = in.tb.Const(32, 1)
			return in.tb.T
		}
		return in.tb.F
	})
	reg("(*sync.Mutex).Unlock", func(in *Interp, fr *frame, args []Value) Value {
		st := fieldPtr(in, args[0], 0)
		free := in.tb.Eq((*st).(*Term), in.tb.Const(32, 0))
		if in.Branch(free) {
			panic(in.goPanic("sync: unlock of unlocked mutex"))
		}
		*st = in.tb.Const(32, 0)
		return nil
	})
	// RWMutex: field 0 = w Mutex; readers counted in field 3 (readerCount atomic.Int32 {_, v})
	rwState := func(in *Interp, p Value) (w *Value, rc *Value) {
		w = fieldPtr(in, fieldPtr(in, p, 0), 0)
		rcs := fieldPtr(in, p, 3)
		rc = &(*rcs).(Struct)[1]
		return
	}
	reg("(*sync.RWMutex).Lock", func(in *Interp, fr *frame, args []Value) Value {
		w, rc := rwState(in, args[0])
		free := in.tb.And(in.tb.Eq((*w).(*Term), in.tb.Const(32, 0)), in.tb.Eq((*rc).(*Term), in.tb.Const(32, 0)))
		if !in.Branch(free) {
			in.top = fr
			in.reportViolation("check", "sync.RWMutex.Lock while held (self-deadlock)", in.where(), in.stack())
			panic(&pathEnd{kind: "violation"})
		}
		*w = in.tb.Const(32, 1)
		return nil
	})
	reg("(*sync.RWMutex).Unlock", func(in *Interp, fr *frame, args []Value) Value {
		w, _ := rwState(in, args[0])
		if in.Branch(in.tb.Eq((*w).(*Term), in.tb.Const(32, 0))) {
			panic(in.goPanic("sync: Unlock of unlocked RWMutex"))
		}
		*w = in.tb.Const(32, 0)
		return nil
	})
	reg("(*sync.RWMutex).RLock", func(in *Interp, fr *frame, args []Value) Value {
		w, rc := rwState(in, args[0])
		if !in.Branch(in.tb.Eq((*w).(*Term), in.tb.Const(32, 0))) {
			in.top = fr
			in.reportViolation("check", "sync.RWMutex.RLock while write-held (self-deadlock)", in.where(), in.stack())
			panic(&pathEnd{kind: "violation"})
		}
		*rc = in.tb.Add((*rc).(*Term), in.tb.Const(32, 1))
		return nil
	})
	reg("(*sync.RWMutex).RUnlock", func(in *Interp, fr *frame, args []Value) Value {
		_, rc := rwState(in, args[0])
		if in.Branch(in.tb.Eq((*rc).(*Term), in.tb.Const(32, 0))) {
			panic(in.goPanic("sync: RUnlock of unlocked RWMutex"))
		}
		*rc = in.tb.Sub((*rc).(*Term), in.tb.Const(32, 1))
		return nil
	})
	nop := func(in *Interp, fr *frame, args []Value) Value { return nil }
	reg("(*sync.WaitGroup).Add", nop)
	reg("(*sync.WaitGroup).Done", nop)
	reg("(*sync.WaitGroup).Wait", nop)
	reg("(*sync.Cond).Broadcast", nop)
	reg("(*sync.Cond).Signal", nop)
	reg("(*sync.Pool).Put", nop)
	reg("(*sync.Pool).Get", func(in *Interp, fr *frame, args []Value) Value {
		// Pool{noCopy, local, localSize, victim, victimSize, New}
		s := (*args[0].(*Value)).(Struct)
		newf := s[len(s)-1]
		if newf == nil {
			return Iface{}
		}
		return in.callValue(newf, nil, fr)
	})
	reg("runtime.Gosched", nop)
	reg("runtime.KeepAlive", nop)
	reg("runtime.SetFinalizer", nop)

	// ---------- sync/atomic ----------
	for _, ty := range []string{"Int32", "Int64", "Uint32", "Uint64", "Uintptr"} {
		reg("sync/atomic.Load"+ty, func(in *Interp, fr *frame, args []Value) Value { return in.load(args[0]) })
		reg("sync/atomic.Store"+ty, func(in *Interp, fr *frame, args []Value) Value { in.store(args[0], args[1]); return nil })
		reg("sync/atomic.Add"+ty, func(in *Interp, fr *frame, args []Value) Value {
			v := in.tb.Add(in.load(args[0]).(*Term), args[1].(*Term))
			in.store(args[0], v)
			return v
		})
		reg("sync/atomic.Swap"+ty, func(in *Interp, fr *frame, args []Value) Value {
			old := in.load(args[0])
			in.store(args[0], args[1])
			return old
		})
		reg("sync/atomic.CompareAndSwap"+ty, func(in *Interp, fr *frame, args []Value) Value {
			cur := in.load(args[0]).(*Term)
			if in.Branch(in.tb.Eq(cur, args[1].(*Term))) {
				in.store(args[0], args[2])
				return in.tb.T
			}
			return in.tb.F
		})
	}
	reg("sync/atomic.LoadPointer", func(in *Interp, fr *frame, args []Value) Value { return in.load(args[0]) })
	reg("sync/atomic.StorePointer", func(in *Interp, fr *frame, args []Value) Value { in.store(args[0], args[1]); return nil })
	reg("sync/atomic.SwapPointer", func(in *Interp, fr *frame, args []Value) Value {
		old := in.load(args[0])
		in.store(args[0], args[1])
		return old
	})
	reg("sync/atomic.CompareAndSwapPointer", func(in *Interp, fr *frame, args []Value) Value {
		cur := in.load(args[0])
		if in.Branch(in.valEq(cur, args[1])) {
			in.store(args[0], args[2])
			return in.tb.T
		}
		return in.tb.F
	})
	// atomic.Value{v any}
	reg("(*sync/atomic.Value).Load", func(in *Interp, fr *frame, args []Value) Value {
		v := *fieldPtr(in, args[0], 0)
		// scheduling point right after an atomic load (harness hook)
		if h, ok := in.hostState["onatomic"]; ok && h != nil {
			in.callValue(h, nil, fr)
		}
		return v
	})
	reg(RT+".OnAtomicLoad", func(in *Interp, fr *frame, args []Value) Value {
		in.hostState["onatomic"] = args[0]
		return nil
	})
	reg("(*sync/atomic.Value).Store", func(in *Interp, fr *frame, args []Value) Value {
		if args[1].(Iface).T == nil {
			panic(in.goPanic("sync/atomic: store of nil value into Value"))
		}
		*fieldPtr(in, args[0], 0) = args[1]
		return nil
	})
	reg("(*sync/atomic.Value).Swap", func(in *Interp, fr *frame, args []Value) Value {
		p := fieldPtr(in, args[0], 0)
		old := *p
		*p = args[1]
		return old
	})
	reg("(*sync/atomic.Value).CompareAndSwap", func(in *Interp, fr *frame, args []Value) Value {
		p := fieldPtr(in, args[0], 0)
		if in.Branch(in.valEq(*p, args[1])) {
			*p = args[2]
			return in.tb.T
		}
		return in.tb.F
	})

	// ---------- bytealg & friends ----------
	idxByte := func(in *Interp, b []*Term, c *Term) Value {
		for i, x := range b {
			if in.Branch(in.tb.Eq(x, c)) {
				return in.tb.Const(64, uint64(i))
			}
		}
		return in.tb.Const(64, ^uint64(0))
	}
	reg("internal/bytealg.IndexByteString", func(in *Interp, fr *frame, args []Value) Value {
		return idxByte(in, in.strBytes(args[0]), args[1].(*Term))
	})
	reg("internal/bytealg.IndexByte", func(in *Interp, fr *frame, args []Value) Value {
		return idxByte(in, sliceTerms(args[0].(Slice)), args[1].(*Term))
	})
	reg("internal/bytealg.Equal", func(in *Interp, fr *frame, args []Value) Value {
		return in.bytesEq(sliceTerms(args[0].(Slice)), sliceTerms(args[1].(Slice)))
	})
	reg("bytes.Equal", func(in *Interp, fr *frame, args []Value) Value {
		return in.bytesEq(sliceTerms(args[0].(Slice)), sliceTerms(args[1].(Slice)))
	})
	reg("internal/bytealg.CountString", func(in *Interp, fr *frame, args []Value) Value {
		n := 0
		for _, x := range in.strBytes(args[0]) {
			if in.Branch(in.tb.Eq(x, args[1].(*Term))) {
				n++
			}
		}
		return in.tb.Const(64, uint64(n))
	})
	reg("internal/bytealg.Count", func(in *Interp, fr *frame, args []Value) Value {
		n := 0
		for _, x := range sliceTerms(args[0].(Slice)) {
			if in.Branch(in.tb.Eq(x, args[1].(*Term))) {
				n++
			}
		}
		return in.tb.Const(64, uint64(n))
	})
	reg("internal/bytealg.MakeNoZero", func(in *Interp, fr *frame, args []Value) Value {
		n := cint(in, args[0], "MakeNoZero")
		a := make([]Value, n)
		for i := range a {
			a[i] = in.tb.Const(8, 0)
		}
		return Slice{A: a}
	})
	reg("internal/bytealg.IndexString", func(in *Interp, fr *frame, args []Value) Value {
		a, aok := args[0].(string)
		b, bok := args[1].(string)
		if aok && bok {
			return in.tb.Const(64, uint64(int64(strings.Index(a, b))))
		}
		panic(in.unsupported("bytealg.IndexString on symbolic strings"))
	})
	reg("internal/bytealg.Compare", func(in *Interp, fr *frame, args []Value) Value {
		a, b := sliceTerms(args[0].(Slice)), sliceTerms(args[1].(Slice))
		lt := in.strCompare(token.LSS, a, b)
		if in.Branch(lt) {
			return in.tb.Const(64, ^uint64(0))
		}
		if in.Branch(in.bytesEq(a, b)) {
			return in.tb.Const(64, 0)
		}
		return in.tb.Const(64, 1)
	})
	reg("strings.Compare", func(in *Interp, fr *frame, args []Value) Value {
		a, b := in.strBytes(args[0]), in.strBytes(args[1])
		if in.Branch(in.strCompare(token.LSS, a, b)) {
			return in.tb.Const(64, ^uint64(0))
		}
		if in.Branch(in.bytesEq(a, b)) {
			return in.tb.Const(64, 0)
		}
		return in.tb.Const(64, 1)
	})
	reg("unsafe.String", func(in *Interp, fr *frame, args []Value) Value { panic(in.unsupported("unsafe.String")) })
	reg("strings.Clone", func(in *Interp, fr *frame, args []Value) Value { return args[0] })
	reg("internal/stringslite.Clone", func(in *Interp, fr *frame, args []Value) Value { return args[0] })
	reg("(*strings.Builder).String", func(in *Interp, fr *frame, args []Value) Value {
		// Builder{addr *Builder, buf []byte}
		s := (*args[0].(*Value)).(Struct)
		return mkStr(sliceTerms(s[1].(Slice)))
	})
	reg("(*strings.Builder).copyCheck", nop)
	reg("strings.noescape", func(in *Interp, fr *frame, args []Value) Value { return args[0] })

	// ---------- os / misc environment ----------
	reg("os.Getenv", func(in *Interp, fr *frame, args []Value) Value { return "" })
	reg("os.Getpid", func(in *Interp, fr *frame, args []Value) Value { return in.tb.Const(64, 4242) })
	reg("os.Hostname", func(in *Interp, fr *frame, args []Value) Value { return Tuple{"verifhost", Iface{}} })
}

func sliceTerms(s Slice) []*Term {
	out := make([]*Term, len(s.A))
	for i, v := range s.A {
		out[i] = v.(*Term)
	}
	return out
}

func (in *Interp) bytesEq(a, b []*Term) *Term {
	if len(a) != len(b) {
		return in.tb.F
	}
	cs := make([]*Term, len(a))
	for i := range a {
		cs[i] = in.tb.Eq(a[i], b[i])
	}
	return in.tb.And(cs...)
}

func fieldPtr(in *Interp, p Value, i int) *Value {
	q, ok := p.(*Value)
	if !ok || q == nil {
		panic(in.nilDeref())
	}
	s, ok := (*q).(Struct)
	if !ok {
		panic(in.unsupported(fmt.Sprintf("fieldPtr: cell holds %T", *q)))
	}
	return &s[i]
}

// crcFold models hash/crc64 (ISO) as a fold of two uninterpreted step
// functions; fully concrete inputs are evaluated with the real CRC.
func (in *Interp) crcFold(state *Term, data []Value) *Term {
	tb := in.tb
	i := 0
	// concrete prefix with concrete state: real CRC update
	if state.IsConst() {
		var buf []byte
		for i < len(data) && data[i].(*Term).IsConst() {
			buf = append(buf, byte(data[i].(*Term).Val))
			i++
		}
		state = tb.Const(64, crc64.Update(state.Val, crcTab, buf))
	}
	for i+8 <= len(data) {
		parts := make([]*Term, 8)
		for j := 0; j < 8; j++ {
			parts[j] = data[i+j].(*Term)
		}
		state = tb.UF("crc64_step8", 64, state, tb.Concat(parts...))
		i += 8
	}
	for ; i < len(data); i++ {
		state = tb.UF("crc64_step1", 64, state, data[i].(*Term))
	}
	return state
}

// modelDeferrable asks a model channel's owner whether it is a not-yet-due
// one-shot timer (method Deferrable() bool); other channels are never deferrable.
func (in *Interp) modelDeferrable(ch *Chan) bool {
	if ch == nil || ch.Kind != "model" {
		return false
	}
	owner, ok := ch.Data.(Iface)
	if !ok {
		return false
	}
	m := in.lookupMethod(owner.T, "Deferrable")
	if m == nil {
		return false
	}
	r, ok := in.callFunction(m, []Value{owner.V}, nil, in.top).(*Term)
	return ok && r.IsTrue()
}

func mkModelChan(in *Interp, fr *frame, args []Value) Value {
	return &Chan{Kind: "model", Data: args[0]}
}

func init() {
	chanReadyHooks["model"] = func(in *Interp, ch *Chan) *Term {
		owner := ch.Data.(Iface)
		m := in.lookupMethod(owner.T, "Ready")
		if m == nil {
			panic(in.unsupported("model channel owner has no Ready method: " + owner.T.String()))
		}
		return in.callFunction(m, []Value{owner.V}, nil, in.top).(*Term)
	}
	chanHooks["model"] = func(in *Interp, ch *Chan, t types.Type, commit bool) (Value, bool) {
		owner := ch.Data.(Iface)
		rm := in.lookupMethod(owner.T, "Ready")
		ready := in.tb.T
		if _, committed := in.hostState["selectcommit"]; !committed {
			ready = in.callFunction(rm, []Value{owner.V}, nil, in.top).(*Term)
		}
		if !in.Branch(ready) {
			// A plain receive blocks until ready: the model's Wait() forces readiness.
			wm := in.lookupMethod(owner.T, "Wait")
			if wm == nil {
				panic(&pathEnd{kind: "infeasible", reason: "blocking receive on a never-ready model channel"})
			}
			in.callFunction(wm, []Value{owner.V}, nil, in.top)
		}
		m := in.lookupMethod(owner.T, "Recv")
		r := in.callFunction(m, []Value{owner.V}, nil, in.top).(Tuple)
		ok := r[1].(*Term).IsTrue()
		v := r[0].(Iface)
		if v.T == nil {
			return in.zero(t.Underlying().(*types.Chan).Elem()), ok
		}
		return v.V, ok
	}
}

// callPrefixIntrinsic handles whole packages that are stubbed out.
func (in *Interp) callPrefixIntrinsic(fn *ssa.Function, name string, args []Value) (Value, bool) {
	pkg := ""
	if fn.Pkg != nil {
		pkg = fn.Pkg.Pkg.Path()
	} else if o := fn.Origin(); o != nil && o.Pkg != nil {
		pkg = o.Pkg.Pkg.Path()
	} else if recv := fn.Signature.Recv(); recv != nil {
		if n, ok := derefNamed(recv.Type()); ok && n.Obj().Pkg() != nil {
			pkg = n.Obj().Pkg().Path()
		}
	}
	switch {
	case strings.HasPrefix(pkg, "github.com/prometheus/"), pkg == "log", pkg == "expvar",
		strings.HasPrefix(pkg, "golang.org/x/exp/slog"), pkg == "log/slog",
		pkg == "github.com/mattn/go-shellwords":
		return in.dummyResults(fn.Signature.Results()), true
	}
	// native call-outs for pure string functions with concrete arguments
	if f, ok := natives[name]; ok {
		if r, ok := f(in, args); ok {
			return r, true
		}
	}
	return nil, false
}

func derefNamed(t types.Type) (*types.Named, bool) {
	if p, ok := t.(*types.Pointer); ok {
		t = p.Elem()
	}
	n, ok := t.(*types.Named)
	return n, ok
}

var natives = map[string]func(in *Interp, args []Value) (Value, bool){}

func allStrings(args []Value) ([]string, bool) {
	out := make([]string, len(args))
	for i, a := range args {
		s, ok := a.(string)
		if !ok {
			return nil, false
		}
		out[i] = s
	}
	return out, true
}

func init() {
	ss := func(f func(a, b string) string) func(in *Interp, args []Value) (Value, bool) {
		return func(in *Interp, args []Value) (Value, bool) {
			s, ok := allStrings(args)
			if !ok {
				return nil, false
			}
			return f(s[0], s[1]), true
		}
	}
	sb := func(f func(a, b string) bool) func(in *Interp, args []Value) (Value, bool) {
		return func(in *Interp, args []Value) (Value, bool) {
			s, ok := allStrings(args)
			if !ok {
				return nil, false
			}
			return in.tb.Bool(f(s[0], s[1])), true
		}
	}
	s1 := func(f func(a string) string) func(in *Interp, args []Value) (Value, bool) {
		return func(in *Interp, args []Value) (Value, bool) {
			s, ok := allStrings(args)
			if !ok {
				return nil, false
			}
			return f(s[0]), true
		}
	}
	natives["strings.HasPrefix"] = sb(strings.HasPrefix)
	natives["strings.HasSuffix"] = sb(strings.HasSuffix)
	natives["strings.Contains"] = sb(strings.Contains)
	natives["strings.EqualFold"] = sb(strings.EqualFold)
	natives["strings.TrimPrefix"] = ss(strings.TrimPrefix)
	natives["strings.TrimSuffix"] = ss(strings.TrimSuffix)
	natives["strings.Trim"] = ss(strings.Trim)
	natives["strings.TrimLeft"] = ss(strings.TrimLeft)
	natives["strings.TrimRight"] = ss(strings.TrimRight)
	natives["strings.TrimSpace"] = s1(strings.TrimSpace)
	natives["strings.ToLower"] = s1(strings.ToLower)
	natives["strings.ToUpper"] = s1(strings.ToUpper)
	natives["path/filepath.Dir"] = s1(filepath.Dir)
	natives["path/filepath.Base"] = s1(filepath.Base)
	natives["path/filepath.Ext"] = s1(filepath.Ext)
	natives["path/filepath.Clean"] = s1(filepath.Clean)
	natives["strings.Index"] = func(in *Interp, args []Value) (Value, bool) {
		s, ok := allStrings(args)
		if !ok {
			return nil, false
		}
		return in.tb.Const(64, uint64(int64(strings.Index(s[0], s[1])))), true
	}
	natives["strings.LastIndex"] = func(in *Interp, args []Value) (Value, bool) {
		s, ok := allStrings(args)
		if !ok {
			return nil, false
		}
		return in.tb.Const(64, uint64(int64(strings.LastIndex(s[0], s[1])))), true
	}
	natives["path/filepath.Split"] = func(in *Interp, args []Value) (Value, bool) {
		s, ok := allStrings(args)
		if !ok {
			return nil, false
		}
		d, f := filepath.Split(s[0])
		return Tuple{d, f}, true
	}
	natives["path/filepath.Join"] = func(in *Interp, args []Value) (Value, bool) {
		var parts []string
		for _, e := range args[0].(Slice).A {
			s, ok := e.(string)
			if !ok {
				return nil, false
			}
			parts = append(parts, s)
		}
		return filepath.Join(parts...), true
	}
	natives["strings.Join"] = func(in *Interp, args []Value) (Value, bool) {
		var parts []string
		for _, e := range args[0].(Slice).A {
			s, ok := e.(string)
			if !ok {
				return nil, false
			}
			parts = append(parts, s)
		}
		sep, ok := args[1].(string)
		if !ok {
			return nil, false
		}
		return strings.Join(parts, sep), true
	}
	natives["strings.Split"] = func(in *Interp, args []Value) (Value, bool) {
		s, ok := allStrings(args)
		if !ok {
			return nil, false
		}
		parts := strings.Split(s[0], s[1])
		a := make([]Value, len(parts))
		for i, p := range parts {
			a[i] = p
		}
		return Slice{A: a}, true
	}
	natives["strings.Fields"] = func(in *Interp, args []Value) (Value, bool) {
		s, ok := allStrings(args)
		if !ok {
			return nil, false
		}
		parts := strings.Fields(s[0])
		a := make([]Value, len(parts))
		for i, p := range parts {
			a[i] = p
		}
		return Slice{A: a}, true
	}
	natives["strconv.Itoa"] = func(in *Interp, args []Value) (Value, bool) {
		t := args[0].(*Term)
		if !t.IsConst() {
			return nil, false
		}
		return strconv.Itoa(int(int64(t.Val))), true
	}
	natives["strconv.FormatInt"] = func(in *Interp, args []Value) (Value, bool) {
		t, b := args[0].(*Term), args[1].(*Term)
		if !t.IsConst() || !b.IsConst() {
			return nil, false
		}
		return strconv.FormatInt(int64(t.Val), int(b.Val)), true
	}
	natives["strconv.FormatUint"] = func(in *Interp, args []Value) (Value, bool) {
		t, b := args[0].(*Term), args[1].(*Term)
		if !t.IsConst() || !b.IsConst() {
			return nil, false
		}
		return strconv.FormatUint(t.Val, int(b.Val)), true
	}
	natives["strconv.ParseUint"] = func(in *Interp, args []Value) (Value, bool) {
		s, ok := args[0].(string)
		b, bs := args[1].(*Term), args[2].(*Term)
		if !ok || !b.IsConst() || !bs.IsConst() {
			return nil, false
		}
		v, err := strconv.ParseUint(s, int(b.Val), int(bs.Val))
		if err != nil {
			return nil, false // fall back to the interpreted implementation for the error value
		}
		return Tuple{in.tb.Const(64, v), Iface{}}, true
	}
	natives["strconv.ParseInt"] = func(in *Interp, args []Value) (Value, bool) {
		s, ok := args[0].(string)
		b, bs := args[1].(*Term), args[2].(*Term)
		if !ok || !b.IsConst() || !bs.IsConst() {
			return nil, false
		}
		v, err := strconv.ParseInt(s, int(b.Val), int(bs.Val))
		if err != nil {
			return nil, false
		}
		return Tuple{in.tb.Const(64, uint64(v)), Iface{}}, true
	}
	natives["strconv.Atoi"] = func(in *Interp, args []Value) (Value, bool) {
		s, ok := args[0].(string)
		if !ok {
			return nil, false
		}
		v, err := strconv.Atoi(s)
		if err != nil {
			return nil, false
		}
		return Tuple{in.tb.Const(64, uint64(int64(v))), Iface{}}, true
	}
	natives["strconv.Quote"] = func(in *Interp, args []Value) (Value, bool) {
		s, ok := args[0].(string)
		if !ok {
			return "\"<symbolic>\"", true
		}
		return strconv.Quote(s), true
	}
}

// allocHook is called before make() with a possibly symbolic length.
func (in *Interp) allocHook(n *Term, t types.Type) {
	h, ok := in.hostState["alloclimit"]
	if !ok || h == nil {
		return
	}
	if n.IsConst() && n.Val < 4096 {
		return
	}
	// harness-provided monitor: func(n int64) — it performs its own Check
	in.callValue(h, []Value{n}, in.top)
}

// patchGlobals fixes up globals of packages whose init is not run.
func (in *Interp) patchGlobals(pkg *ssa.Package) {
	switch pkg.Pkg.Path() {
	case "time":
		for _, n := range []string{"UTC", "Local"} {
			if g, _ := pkg.Members[n].(*ssa.Global); g != nil {
				cell := new(Value)
				*cell = &Host{Kind: "dummy"}
				*in.globals[g] = cell
				in.patched[g] = true
			}
		}
	case "crypto/rand":
		rtp := in.prog.ImportedPackage(RT)
		g, _ := pkg.Members["Reader"].(*ssa.Global)
		if rtp != nil && g != nil {
			if tn, ok := rtp.Members["RandReader"].(*ssa.Type); ok {
				cell := new(Value)
				*cell = in.zero(tn.Type())
				*in.globals[g] = Iface{T: types.NewPointer(tn.Type()), V: cell}
				in.patched[g] = true
			}
		}
	case "os":
		fsp := in.prog.ImportedPackage("io/fs")
		if fsp == nil {
			return
		}
		for _, n := range []string{"ErrInvalid", "ErrPermission", "ErrExist", "ErrNotExist", "ErrClosed"} {
			src, _ := fsp.Members[n].(*ssa.Global)
			dst, _ := pkg.Members[n].(*ssa.Global)
			if src == nil || dst == nil {
				continue
			}
			*in.globals[dst] = *in.globalAddr(src)
			in.patched[dst] = true
		}
	}
}

// checkGlobalRead fails closed when a global of a package whose initialiser
// was not run is read while still holding a nil reference.
func (in *Interp) checkGlobalRead(g *ssa.Global, v Value) {
	if g.Pkg == nil || in.ex.runInit(g.Pkg.Pkg.Path()) || in.patched[g] {
		return
	}
	nilish := false
	switch x := v.(type) {
	case Iface:
		nilish = x.T == nil
	case *Value:
		nilish = x == nil
	case *Map:
		nilish = x == nil
	case nil:
		nilish = true
	}
	if nilish {
		panic(in.unsupported("read of global " + g.String() + " whose package initialiser is not modelled"))
	}
}

func init() {
	reg(RT+".MkTime", func(in *Interp, fr *frame, args []Value) Value {
		return Struct{in.tb.Const(64, 0), args[0], (*Value)(nil)}
	})
	reg(RT+".TimeNS", func(in *Interp, fr *frame, args []Value) Value {
		return args[0].(Struct)[1]
	})
	reg(RT+".NS2MS", func(in *Interp, fr *frame, args []Value) Value {
		t := args[0].(*Term)
		if t.IsConst() {
			return in.tb.Const(64, uint64(int64(t.Val)/1000000))
		}
		return in.tb.UF("ns2ms", 64, t)
	})
	reg(RT+".MS2NS", func(in *Interp, fr *frame, args []Value) Value {
		t := args[0].(*Term)
		if t.IsConst() {
			return in.tb.Const(64, uint64(int64(t.Val)*1000000))
		}
		return in.tb.UF("ms2ns", 64, t)
	})
}

func init() {
	reHost := func(in *Interp, v Value) *regexp.Regexp {
		p, ok := v.(*Value)
		if !ok || p == nil {
			panic(in.nilDeref())
		}
		h, ok := (*p).(*Host)
		if !ok || h.Kind != "regexp" {
			panic(in.unsupported("regexp value not created by the regexp model"))
		}
		return h.Data.(*regexp.Regexp)
	}
	reg("regexp.MustCompile", func(in *Interp, fr *frame, args []Value) Value {
		p := new(Value)
		*p = &Host{Kind: "regexp", Data: regexp.MustCompile(str(in, args[0]))}
		return p
	})
	reg("regexp.Compile", func(in *Interp, fr *frame, args []Value) Value {
		re, err := regexp.Compile(str(in, args[0]))
		if err != nil {
			panic(in.unsupported("regexp.Compile error path: " + err.Error()))
		}
		p := new(Value)
		*p = &Host{Kind: "regexp", Data: re}
		return Tuple{p, Iface{}}
	})
	reg("regexp.QuoteMeta", func(in *Interp, fr *frame, args []Value) Value {
		return regexp.QuoteMeta(str(in, args[0]))
	})
	reg("(*regexp.Regexp).String", func(in *Interp, fr *frame, args []Value) Value {
		return reHost(in, args[0]).String()
	})
	reg("(*regexp.Regexp).MatchString", func(in *Interp, fr *frame, args []Value) Value {
		s, ok := args[1].(string)
		if !ok {
			panic(in.unsupported("regexp match on symbolic string"))
		}
		return in.tb.Bool(reHost(in, args[0]).MatchString(s))
	})
	reg("(*regexp.Regexp).FindStringSubmatch", func(in *Interp, fr *frame, args []Value) Value {
		s, ok := args[1].(string)
		if !ok {
			panic(in.unsupported("regexp match on symbolic string"))
		}
		m := reHost(in, args[0]).FindStringSubmatch(s)
		if m == nil {
			return Slice{}
		}
		a := make([]Value, len(m))
		for i, x := range m {
			a[i] = x
		}
		return Slice{A: a}
	})
}
