package verifrt

import (
	"encoding/json"
	"io"
	"unsafe"
)

// Buf is an io.Writer collecting what is written.
type Buf struct{ B []byte }

func (b *Buf) Write(p []byte) (int, error) {
	b.B = append(b.B, p...)
	return len(p), nil
}

// SplitReader serves Data with a chosen splitting: Mode 0 = as much as asked,
// 1 = one byte per Read, 2 = a single cut at Cut, 3 = as much as asked, and the
// read that delivers the last byte returns io.EOF along with the data (as
// io.Reader permits and HTTP bodies do).
type SplitReader struct {
	Data  []byte
	Pos   int
	Mode  int
	Cut   int
	Reads int
}

func (r *SplitReader) Read(p []byte) (int, error) {
	r.Reads++
	if r.Pos >= len(r.Data) {
		return 0, io.EOF
	}
	if len(p) == 0 {
		return 0, nil
	}
	n := len(r.Data) - r.Pos
	if n > len(p) {
		n = len(p)
	}
	switch r.Mode {
	case 1:
		n = 1
	case 2:
		if r.Pos < r.Cut && r.Pos+n > r.Cut {
			n = r.Cut - r.Pos
		}
	}
	copy(p, r.Data[r.Pos:r.Pos+n])
	r.Pos += n
	if r.Mode == 3 && r.Pos == len(r.Data) {
		return n, io.EOF
	}
	return n, nil
}

// ChooseSplit picks a splitting mode (and cut position) for data of length n.
func ChooseSplit(n int) (mode, cut int) {
	mode = Choose("split.mode", 4)
	if mode == 2 {
		if n < 2 {
			Assume(false)
		}
		cut = 1 + Choose("split.cut", n-1)
	}
	return mode, cut
}

// RandReader stands in for crypto/rand.Reader: every byte is nondeterministic.
type RandReader struct{}

func (*RandReader) Read(p []byte) (int, error) {
	for i := range p {
		p[i] = U8("rand")
	}
	return len(p), nil
}

//verif:stub math/rand.Int
func RandInt() int { return 4 }

//verif:stub math/rand.Intn
func RandIntn(n int) int {
	v := Int("rand.intn")
	Assume(v >= 0 && v < n)
	return v
}

//verif:stub math/rand.Int63n
func RandInt63n(n int64) int64 {
	v := I64("rand.int63n")
	Assume(v >= 0 && v < n)
	return v
}

// ---------- encoding/json (reflection-based; only the fact that something is written matters) ----------

var jsonWriters = map[*json.Encoder]io.Writer{}

//verif:stub encoding/json.NewEncoder
func JSONNewEncoder(w io.Writer) *json.Encoder {
	e := &json.Encoder{}
	jsonWriters[e] = w
	return e
}

//verif:stub (*encoding/json.Encoder).Encode
func JSONEncode(e *json.Encoder, v any) error {
	_, err := jsonWriters[e].Write([]byte("{\"json\":true}\n"))
	return err
}

//verif:stub encoding/json.Marshal
func JSONMarshal(v any) ([]byte, error) { return []byte("{\"json\":true}"), nil }

//verif:stub encoding/json.MarshalIndent
func JSONMarshalIndent(v any, prefix, indent string) ([]byte, error) {
	return []byte("{\"json\":true}"), nil
}

// ---------- io.Pipe (goroutines run eagerly: the writer side finishes before the reader starts) ----------

type pipeBuf struct {
	buf     []byte
	wclosed bool
	werr    error
	rclosed bool
}

type pipeEnd struct{ p *pipeBuf }

//verif:stub io.Pipe
func IOPipe() (*io.PipeReader, *io.PipeWriter) {
	p := &pipeBuf{}
	return (*io.PipeReader)(unsafe.Pointer(&pipeEnd{p})), (*io.PipeWriter)(unsafe.Pointer(&pipeEnd{p}))
}

//verif:stub (*io.PipeWriter).Write
func PipeWrite(w *io.PipeWriter, b []byte) (int, error) {
	p := (*pipeEnd)(unsafe.Pointer(w)).p
	if p.rclosed {
		return 0, io.ErrClosedPipe
	}
	if p.wclosed {
		return 0, io.ErrClosedPipe
	}
	p.buf = append(p.buf, b...)
	return len(b), nil
}

//verif:stub (*io.PipeWriter).Close
func PipeWClose(w *io.PipeWriter) error { return PipeWCloseWithError(w, nil) }

//verif:stub (*io.PipeWriter).CloseWithError
func PipeWCloseWithError(w *io.PipeWriter, err error) error {
	p := (*pipeEnd)(unsafe.Pointer(w)).p
	if !p.wclosed {
		p.wclosed = true
		if err == nil {
			err = io.EOF
		}
		p.werr = err
	}
	return nil
}

//verif:stub (*io.PipeReader).Read
func PipeRead(r *io.PipeReader, b []byte) (int, error) {
	p := (*pipeEnd)(unsafe.Pointer(r)).p
	if p.rclosed {
		return 0, io.ErrClosedPipe
	}
	if len(p.buf) > 0 {
		n := copy(b, p.buf)
		p.buf = p.buf[n:]
		return n, nil
	}
	if p.wclosed {
		return 0, p.werr
	}
	panic("verifrt: read on an open empty pipe would block (writer goroutine did not finish)")
}

//verif:stub (*io.PipeReader).Close
func PipeRClose(r *io.PipeReader) error {
	(*pipeEnd)(unsafe.Pointer(r)).p.rclosed = true
	return nil
}

//verif:stub (*io.PipeReader).CloseWithError
func PipeRCloseWithError(r *io.PipeReader, err error) error {
	(*pipeEnd)(unsafe.Pointer(r)).p.rclosed = true
	return nil
}
