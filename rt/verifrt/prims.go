// Package verifrt is the harness runtime: nondeterministic inputs, assumptions
// and obligations. Under the symbolic executor every function in this file is
// intercepted by name; the bodies below are the native (replay) semantics.
package verifrt

import (
	"encoding/json"
	"fmt"
	"os"
	"time"
)

type replayFile struct {
	Model   map[string]uint64 `json:"model"`
	Choices []uint64          `json:"choices"`
	Harness string            `json:"func"`
	Msg     string            `json:"msg"`
	Tier    int               `json:"tier"`
}

var (
	replay   *replayFile
	seq      = map[string]int{}
	nchoice  int
	tier     int
	Failures []string
)

// LoadReplay loads a counterexample/witness file for native replay.
func LoadReplay(path string) error {
	b, err := os.ReadFile(path)
	if err != nil {
		return err
	}
	replay = &replayFile{}
	seq = map[string]int{}
	nchoice = 0
	Failures = nil
	return json.Unmarshal(b, replay)
}

func next(tag string) uint64 {
	k := seq[tag]
	seq[tag] = k + 1
	name := tag
	if k > 0 {
		name = fmt.Sprintf("%s#%d", tag, k)
	}
	if replay == nil {
		return 0
	}
	return replay.Model[name]
}

func U64(tag string) uint64 { return next(tag) }
func I64(tag string) int64  { return int64(next(tag)) }
func Int(tag string) int    { return int(int64(next(tag))) }
func U32(tag string) uint32 { return uint32(next(tag)) }
func I32(tag string) int32  { return int32(next(tag)) }
func U16(tag string) uint16 { return uint16(next(tag)) }
func U8(tag string) uint8   { return uint8(next(tag)) }
func Bool(tag string) bool  { return next(tag) == 1 }

// Bytes returns n fresh bytes named tag[i].
func Bytes(tag string, n int) []byte {
	b := make([]byte, n)
	for i := range b {
		b[i] = uint8(next(fmt.Sprintf("%s[%d]", tag, i)))
	}
	return b
}

// Choose returns a value in [0,n): an exhaustive solver-free fork.
func Choose(tag string, n int) int {
	if n <= 1 {
		return 0 // a single alternative is not recorded as a choice
	}
	if replay == nil || nchoice >= len(replay.Choices) {
		return 0
	}
	v := replay.Choices[nchoice]
	nchoice++
	return int(v)
}

// AssumeFailed is panicked natively when an assumption does not hold.
type AssumeFailed struct{}

func Assume(c bool) {
	if !c {
		panic(AssumeFailed{})
	}
}

// CheckFailed is panicked natively when an obligation fails.
type CheckFailed struct{ Msg string }

func Check(c bool, msg string) {
	if len(msg) >= 5 && msg[:5] == "TWIN:" {
		return // deliberately false twin assertions only matter to the solver run
	}
	if !c {
		Failures = append(Failures, msg)
		panic(CheckFailed{msg})
	}
}

func Fail(msg string) { Check(false, msg) }

func Reach(tag string) { reached = append(reached, tag) }

func Tier() int { return tier }

// Symbolic reports whether the harness runs under the symbolic executor.
func Symbolic() bool { return false }

// Stub redirects calls of the named function (ssa full name) to fn for the
// rest of the path. Native: no effect.
func Stub(name string, fn any) {}

func Note(s string) {}

func IsConst(x uint64) bool { return true }

func Concretize(x uint64) uint64 { return x }

func Ite64(c bool, a, b uint64) uint64 {
	if c {
		return a
	}
	return b
}

// AllocLimit installs a monitor called before every make() whose length is
// not a small constant.
func AllocLimit(f func(n int64)) {}

func SetClock(ns int64) {}

// TempDir returns a fresh data directory ("/data" in the file-system model).
func TempDir() string {
	d, err := os.MkdirTemp("", "verif-")
	if err != nil {
		panic(err)
	}
	tempDirs = append(tempDirs, d)
	return d
}

var tempDirs []string

// CleanupTempDirs removes directories handed out by TempDir (native only).
func CleanupTempDirs() {
	for _, d := range tempDirs {
		os.RemoveAll(d)
	}
	tempDirs = nil
}

// LoopBound: from now on, a loop header visited more than n times in one
// function activation is reported as a hang (0 switches the monitor off).
// Natively use NoHang.
func LoopBound(n int) {}

// NoHang runs f; natively it fails the check if f has not returned after a
// few seconds, symbolically it bounds every loop by iterations.
func NoHang(iterations int, f func()) {
	if Symbolic() {
		LoopBound(iterations)
		f()
		LoopBound(0)
		return
	}
	done := make(chan struct{})
	go func() {
		defer func() {
			if r := recover(); r != nil {
				nativePanic = r
			}
			close(done)
		}()
		f()
	}()
	select {
	case <-done:
		if nativePanic != nil {
			r := nativePanic
			nativePanic = nil
			panic(r)
		}
	case <-time.After(4 * time.Second):
		Check(false, "loop does not terminate (hang): no return after 4 s")
	}
}

var nativePanic any

// OnAtomicLoad installs a hook that runs right after every atomic.Value load in
// the code under test: a preemption point for interleaving harnesses. nil removes it.
func OnAtomicLoad(f func()) {}

// SelectNondet: when on, a select with several ready cases explores each of
// them (Go chooses at random); when off the first ready case in source order wins.
func SelectNondet(on bool) {}

// SelectNondetBudget bounds the nondeterminism of SelectNondet: only the next n
// select statements choose freely among their ready cases, later ones take the
// first ready case in source order (keeps wait loops with an always-ready
// ticker finite).
func SelectNondetBudget(n int) {}
