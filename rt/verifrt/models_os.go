package verifrt

import (
	"io"
	"io/fs"
	"os"
	"sort"
	"strconv"
	"strings"
	"syscall"
	"time"
	"unsafe"
)

// symFS: an in-memory file system behind the os package. Paths are concrete
// strings; file sizes are concrete; file contents may be symbolic bytes.

type node struct {
	dir   bool
	data  []byte
	mtime int64
}

// File is what *os.File handles point to under the model.
type File struct {
	n      *node
	path   string
	off    int64
	flag   int
	closed bool
	dirPos int
}

var fsys = map[string]*node{"/": {dir: true}}

// FSOp is one mutating file-system operation (for ordering/crash obligations).
type FSOp struct {
	Op   string
	Path string
	Off  int64
	N    int64
}

var (
	FSLog      []FSOp
	FSLogOn    bool
	CrashAfter int = -1 // crash (panic FSCrash) before the (CrashAfter+1)-th mutating op
	fsOps      int
)

// OnFSMut, when set by a harness, is called at every mutating operation
// (symbolic runs only): the place for "which locks are held right now" monitors.
var OnFSMut func(op FSOp)

// FSCrash is panicked when the configured crash point is reached.
type FSCrash struct{}

func fsMut(op, path string, off, n int64) {
	if CrashAfter >= 0 && fsOps >= CrashAfter {
		panic(FSCrash{})
	}
	fsOps++
	if OnFSMut != nil {
		OnFSMut(FSOp{op, path, off, n})
	}
	if FSLogOn {
		FSLog = append(FSLog, FSOp{op, path, off, n})
	}
}

// FSOpCount is the number of mutating operations so far.
func FSOpCount() int { return fsOps }

func toOS(f *File) *os.File   { return (*os.File)(unsafe.Pointer(f)) }
func fromOS(f *os.File) *File { return (*File)(unsafe.Pointer(f)) }

func clean(p string) string {
	if len(p) > 1 && strings.HasSuffix(p, "/") {
		p = strings.TrimSuffix(p, "/")
	}
	return p
}

func parentOf(p string) string {
	i := strings.LastIndex(p, "/")
	if i <= 0 {
		return "/"
	}
	return p[:i]
}

func perr(op, path string, e syscall.Errno) error {
	return &fs.PathError{Op: op, Path: path, Err: e}
}

// ---- direct model access for harnesses ----

// FSPut creates/overwrites a file with the given contents (parents are created).
func FSPut(path string, data []byte) {
	FSMkdirAll(parentOf(path))
	fsys[path] = &node{data: append([]byte(nil), data...), mtime: clock}
}

// FSGet returns the contents of a file (shared, do not modify) and whether it exists.
func FSGet(path string) ([]byte, bool) {
	n := fsys[path]
	if n == nil || n.dir {
		return nil, false
	}
	return n.data, true
}

func FSExists(path string) bool { return fsys[path] != nil }

func FSMkdirAll(path string) {
	if path == "/" || path == "" {
		return
	}
	if fsys[path] == nil {
		FSMkdirAll(parentOf(path))
		fsys[path] = &node{dir: true}
	}
}

// FSSetMtime sets a file's modification time (ns).
func FSSetMtime(path string, ns int64) {
	if n := fsys[path]; n != nil {
		n.mtime = ns
	}
}

// FSList returns the sorted names in a directory.
func FSList(dir string) []string {
	dir = clean(dir)
	prefix := dir + "/"
	if dir == "/" {
		prefix = "/"
	}
	var names []string
	for p := range fsys {
		if p != dir && strings.HasPrefix(p, prefix) {
			rest := p[len(prefix):]
			if rest != "" && !strings.Contains(rest, "/") {
				names = append(names, rest)
			}
		}
	}
	sort.Strings(names)
	return names
}

// ---- os package ----

//verif:stub os.OpenFile
func OSOpenFile(name string, flag int, perm os.FileMode) (*os.File, error) {
	name = clean(name)
	n := fsys[name]
	if n == nil {
		if flag&os.O_CREATE == 0 {
			return nil, perr("open", name, syscall.ENOENT)
		}
		par := fsys[parentOf(name)]
		if par == nil {
			return nil, perr("open", name, syscall.ENOENT)
		} else if !par.dir {
			return nil, perr("open", name, syscall.ENOTDIR)
		}
		fsMut("create", name, 0, 0)
		n = &node{mtime: clock}
		fsys[name] = n
	} else {
		if flag&os.O_CREATE != 0 && flag&os.O_EXCL != 0 {
			return nil, perr("open", name, syscall.EEXIST)
		}
		if n.dir && flag&(os.O_WRONLY|os.O_RDWR) != 0 {
			return nil, perr("open", name, syscall.EISDIR)
		}
		if flag&os.O_TRUNC != 0 && !n.dir && len(n.data) > 0 {
			fsMut("truncate", name, 0, 0)
			n.data = nil
			n.mtime = clock
		}
	}
	return toOS(&File{n: n, path: name, flag: flag}), nil
}

//verif:stub os.Open
func OSOpen(name string) (*os.File, error) { return OSOpenFile(name, os.O_RDONLY, 0) }

//verif:stub os.Create
func OSCreate(name string) (*os.File, error) {
	return OSOpenFile(name, os.O_RDWR|os.O_CREATE|os.O_TRUNC, 0o666)
}

//verif:stub os.Remove
func OSRemove(name string) error {
	name = clean(name)
	n := fsys[name]
	if n == nil {
		return perr("remove", name, syscall.ENOENT)
	}
	if n.dir && len(FSList(name)) > 0 {
		return perr("remove", name, syscall.ENOTEMPTY)
	}
	fsMut("remove", name, 0, 0)
	delete(fsys, name)
	return nil
}

//verif:stub os.RemoveAll
func OSRemoveAll(name string) error {
	name = clean(name)
	if fsys[name] == nil {
		return nil
	}
	fsMut("removeall", name, 0, 0)
	var victims []string
	for p := range fsys {
		if p == name || strings.HasPrefix(p, name+"/") {
			victims = append(victims, p)
		}
	}
	for _, p := range victims {
		delete(fsys, p)
	}
	return nil
}

//verif:stub os.Rename
func OSRename(oldpath, newpath string) error {
	oldpath, newpath = clean(oldpath), clean(newpath)
	n := fsys[oldpath]
	if n == nil {
		return &os.LinkError{Op: "rename", Old: oldpath, New: newpath, Err: syscall.ENOENT}
	}
	if par := fsys[parentOf(newpath)]; par == nil || !par.dir {
		return &os.LinkError{Op: "rename", Old: oldpath, New: newpath, Err: syscall.ENOENT}
	}
	if n.dir {
		panic("verifrt: rename of directories is not modelled")
	}
	fsMut("rename", newpath, 0, 0)
	delete(fsys, oldpath)
	fsys[newpath] = n
	return nil
}

func truncNode(n *node, size int64) {
	cur := int64(len(n.data))
	if size < cur {
		n.data = n.data[:size:size]
	} else if size > cur {
		n.data = append(n.data, make([]byte, size-cur)...)
	}
	n.mtime = clock
}

//verif:stub os.Truncate
func OSTruncate(name string, size int64) error {
	name = clean(name)
	n := fsys[name]
	if n == nil {
		return perr("truncate", name, syscall.ENOENT)
	}
	if n.dir {
		return perr("truncate", name, syscall.EISDIR)
	}
	if size < 0 {
		return perr("truncate", name, syscall.EINVAL)
	}
	fsMut("truncate", name, size, 0)
	truncNode(n, size)
	return nil
}

type fileInfo struct {
	name  string
	size  int64
	dir   bool
	mtime int64
}

func (fi *fileInfo) Name() string { return fi.name }
func (fi *fileInfo) Size() int64  { return fi.size }
func (fi *fileInfo) Mode() fs.FileMode {
	if fi.dir {
		return fs.ModeDir | 0o755
	}
	return 0o644
}
func (fi *fileInfo) ModTime() time.Time         { return MkTime(fi.mtime) }
func (fi *fileInfo) IsDir() bool                { return fi.dir }
func (fi *fileInfo) Sys() any                   { return nil }
func (fi *fileInfo) Type() fs.FileMode          { return fi.Mode().Type() }
func (fi *fileInfo) Info() (fs.FileInfo, error) { return fi, nil }

func infoOf(path string, n *node) *fileInfo {
	base := path
	if i := strings.LastIndex(path, "/"); i >= 0 && path != "/" {
		base = path[i+1:]
	}
	return &fileInfo{name: base, size: int64(len(n.data)), dir: n.dir, mtime: n.mtime}
}

//verif:stub os.Stat
func OSStat(name string) (os.FileInfo, error) {
	name = clean(name)
	n := fsys[name]
	if n == nil {
		return nil, perr("stat", name, syscall.ENOENT)
	}
	return infoOf(name, n), nil
}

//verif:stub os.Lstat
func OSLstat(name string) (os.FileInfo, error) { return OSStat(name) }

//verif:stub os.ReadDir
func OSReadDir(name string) ([]os.DirEntry, error) {
	name = clean(name)
	n := fsys[name]
	if n == nil {
		return nil, perr("open", name, syscall.ENOENT)
	}
	if !n.dir {
		return nil, perr("readdirent", name, syscall.ENOTDIR)
	}
	var ents []os.DirEntry
	for _, nm := range FSList(name) {
		p := name + "/" + nm
		if name == "/" {
			p = "/" + nm
		}
		ents = append(ents, infoOf(p, fsys[p]))
	}
	return ents, nil
}

//verif:stub os.ReadFile
func OSReadFile(name string) ([]byte, error) {
	name = clean(name)
	n := fsys[name]
	if n == nil {
		return nil, perr("open", name, syscall.ENOENT)
	}
	if n.dir {
		return nil, perr("read", name, syscall.EISDIR)
	}
	return append([]byte{}, n.data...), nil
}

//verif:stub os.WriteFile
func OSWriteFile(name string, data []byte, perm os.FileMode) error {
	f, err := OSOpenFile(name, os.O_WRONLY|os.O_CREATE|os.O_TRUNC, perm)
	if err != nil {
		return err
	}
	_, err = FileWrite(f, data)
	if err1 := FileClose(f); err1 != nil && err == nil {
		err = err1
	}
	return err
}

//verif:stub os.Mkdir
func OSMkdir(name string, perm os.FileMode) error {
	name = clean(name)
	if fsys[name] != nil {
		return perr("mkdir", name, syscall.EEXIST)
	}
	if par := fsys[parentOf(name)]; par == nil || !par.dir {
		return perr("mkdir", name, syscall.ENOENT)
	}
	fsMut("mkdir", name, 0, 0)
	fsys[name] = &node{dir: true, mtime: clock}
	return nil
}

//verif:stub os.MkdirAll
func OSMkdirAll(name string, perm os.FileMode) error {
	name = clean(name)
	if n := fsys[name]; n != nil {
		if n.dir {
			return nil
		}
		return perr("mkdir", name, syscall.ENOTDIR)
	}
	if name != "/" {
		if err := OSMkdirAll(parentOf(name), perm); err != nil {
			return err
		}
	}
	return OSMkdir(name, perm)
}

//verif:stub os.Chtimes
func OSChtimes(name string, atime, mtime time.Time) error {
	n := fsys[clean(name)]
	if n == nil {
		return perr("chtimes", name, syscall.ENOENT)
	}
	n.mtime = TimeNS(mtime)
	return nil
}

//verif:stub os.Chmod
func OSChmod(name string, mode os.FileMode) error { return nil }

// ---- *os.File ----

func (f *File) check(op string) error {
	if f == nil {
		return os.ErrInvalid
	}
	if f.closed {
		return &fs.PathError{Op: op, Path: f.path, Err: os.ErrClosed}
	}
	return nil
}

//verif:stub (*os.File).Name
func FileName(of *os.File) string { return fromOS(of).path }

//verif:stub (*os.File).Close
func FileClose(of *os.File) error {
	f := fromOS(of)
	if f == nil {
		return os.ErrInvalid
	}
	if f.closed {
		return &fs.PathError{Op: "close", Path: f.path, Err: os.ErrClosed}
	}
	f.closed = true
	return nil
}

//verif:stub (*os.File).Sync
func FileSync(of *os.File) error {
	f := fromOS(of)
	if err := f.check("sync"); err != nil {
		return err
	}
	// recorded for durability-order checks; not a mutating operation (no crash point, no monitor call)
	if FSLogOn {
		FSLog = append(FSLog, FSOp{"sync", f.path, 0, 0})
	}
	return nil
}

//verif:stub (*os.File).Fd
func FileFd(of *os.File) uintptr { return 3 }

//verif:stub (*os.File).Chmod
func FileChmod(of *os.File, m os.FileMode) error { return fromOS(of).check("chmod") }

//verif:stub (*os.File).Stat
func FileStat(of *os.File) (os.FileInfo, error) {
	f := fromOS(of)
	if err := f.check("stat"); err != nil {
		return nil, err
	}
	return infoOf(f.path, f.n), nil
}

//verif:stub (*os.File).ReadAt
func FileReadAt(of *os.File, b []byte, off int64) (int, error) {
	f := fromOS(of)
	if err := f.check("read"); err != nil {
		return 0, err
	}
	if off < 0 {
		return 0, &fs.PathError{Op: "readat", Path: f.path, Err: os.ErrInvalid}
	}
	if f.n.dir {
		return 0, perr("read", f.path, syscall.EISDIR)
	}
	size := int64(len(f.n.data))
	if off >= size {
		if len(b) == 0 {
			return 0, nil
		}
		return 0, io.EOF
	}
	n := copy(b, f.n.data[off:])
	if n < len(b) {
		return n, io.EOF
	}
	return n, nil
}

//verif:stub (*os.File).Read
func FileRead(of *os.File, b []byte) (int, error) {
	f := fromOS(of)
	if err := f.check("read"); err != nil {
		return 0, err
	}
	if f.n.dir {
		return 0, perr("read", f.path, syscall.EISDIR)
	}
	if len(b) == 0 {
		return 0, nil
	}
	size := int64(len(f.n.data))
	if f.off >= size {
		return 0, io.EOF
	}
	n := copy(b, f.n.data[f.off:])
	f.off += int64(n)
	return n, nil
}

func writeNode(f *File, b []byte, off int64) {
	end := off + int64(len(b))
	if end > int64(len(f.n.data)) {
		f.n.data = append(f.n.data, make([]byte, end-int64(len(f.n.data)))...)
	}
	copy(f.n.data[off:end], b)
	f.n.mtime = clock
}

//verif:stub (*os.File).WriteAt
func FileWriteAt(of *os.File, b []byte, off int64) (int, error) {
	f := fromOS(of)
	if err := f.check("write"); err != nil {
		return 0, err
	}
	if off < 0 {
		return 0, &fs.PathError{Op: "writeat", Path: f.path, Err: os.ErrInvalid}
	}
	if f.flag&(os.O_WRONLY|os.O_RDWR) == 0 {
		return 0, perr("write", f.path, syscall.EBADF)
	}
	if len(b) == 0 {
		return 0, nil
	}
	fsMut("write", f.path, off, int64(len(b)))
	writeNode(f, b, off)
	return len(b), nil
}

//verif:stub (*os.File).Write
func FileWrite(of *os.File, b []byte) (int, error) {
	f := fromOS(of)
	if err := f.check("write"); err != nil {
		return 0, err
	}
	if f.flag&(os.O_WRONLY|os.O_RDWR) == 0 {
		return 0, perr("write", f.path, syscall.EBADF)
	}
	if len(b) == 0 {
		return 0, nil
	}
	if f.flag&os.O_APPEND != 0 {
		f.off = int64(len(f.n.data))
	}
	fsMut("write", f.path, f.off, int64(len(b)))
	writeNode(f, b, f.off)
	f.off += int64(len(b))
	return len(b), nil
}

//verif:stub (*os.File).WriteString
func FileWriteString(of *os.File, s string) (int, error) { return FileWrite(of, []byte(s)) }

//verif:stub (*os.File).Seek
func FileSeek(of *os.File, offset int64, whence int) (int64, error) {
	f := fromOS(of)
	if err := f.check("seek"); err != nil {
		return 0, err
	}
	var base int64
	switch whence {
	case io.SeekStart:
	case io.SeekCurrent:
		base = f.off
	case io.SeekEnd:
		base = int64(len(f.n.data))
	default:
		return 0, perr("seek", f.path, syscall.EINVAL)
	}
	if base+offset < 0 {
		return 0, perr("seek", f.path, syscall.EINVAL)
	}
	f.off = base + offset
	return f.off, nil
}

//verif:stub (*os.File).Truncate
func FileTruncate(of *os.File, size int64) error {
	f := fromOS(of)
	if err := f.check("truncate"); err != nil {
		return err
	}
	if size < 0 {
		return perr("truncate", f.path, syscall.EINVAL)
	}
	if f.flag&(os.O_WRONLY|os.O_RDWR) == 0 {
		return perr("truncate", f.path, syscall.EINVAL)
	}
	fsMut("truncate", f.path, size, 0)
	truncNode(f.n, size)
	return nil
}

//verif:stub (*os.File).ReadFrom
func FileReadFrom(of *os.File, r io.Reader) (int64, error) {
	buf := make([]byte, 4096)
	var total int64
	for {
		n, err := r.Read(buf)
		if n > 0 {
			if _, werr := FileWrite(of, buf[:n]); werr != nil {
				return total, werr
			}
			total += int64(n)
		}
		if err == io.EOF {
			return total, nil
		}
		if err != nil {
			return total, err
		}
	}
}

//verif:stub (*os.File).WriteTo
func FileWriteTo(of *os.File, w io.Writer) (int64, error) {
	buf := make([]byte, 4096)
	var total int64
	for {
		n, err := FileRead(of, buf)
		if n > 0 {
			if _, werr := w.Write(buf[:n]); werr != nil {
				return total, werr
			}
			total += int64(n)
		}
		if err == io.EOF {
			return total, nil
		}
		if err != nil {
			return total, err
		}
	}
}

//verif:stub (*os.File).ReadDir
func FileReadDir(of *os.File, n int) ([]os.DirEntry, error) {
	f := fromOS(of)
	if err := f.check("readdir"); err != nil {
		return nil, err
	}
	ents, err := OSReadDir(f.path)
	if err != nil {
		return nil, err
	}
	if f.dirPos >= len(ents) {
		if n > 0 {
			return nil, io.EOF
		}
		return nil, nil
	}
	ents = ents[f.dirPos:]
	if n > 0 && len(ents) > n {
		ents = ents[:n]
	}
	f.dirPos += len(ents)
	return ents, nil
}

// errnoError stands in for (syscall.Errno).Error: the message table lives in
// package syscall's initialiser, which is not run.
//
//verif:stub (syscall.Errno).Error
func errnoError(e syscall.Errno) string {
	switch e {
	case syscall.ENOENT:
		return "no such file or directory"
	case syscall.EEXIST:
		return "file exists"
	case syscall.ENOTDIR:
		return "not a directory"
	case syscall.EISDIR:
		return "is a directory"
	case syscall.ENOTEMPTY:
		return "directory not empty"
	case syscall.EINVAL:
		return "invalid argument"
	}
	return "errno " + strconv.Itoa(int(e))
}
