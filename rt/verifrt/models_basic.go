package verifrt

import (
	"encoding/binary"
	"hash"
	"hash/crc64"
	"io"
	"strings"
)

// ---------- primitives implemented by the engine (native fallbacks below) ----------

var isoTable = crc64.MakeTable(crc64.ISO)

// CRCFold continues a CRC64-ISO computation. Symbolically it is a fold of two
// uninterpreted step functions; concrete inputs use the real CRC.
func CRCFold(state uint64, b []byte) uint64 { return crc64.Update(state, isoTable, b) }

func BinSize(data any) int { return binary.Size(data) }

func BinDecode(bs []byte, big bool, data any) {
	var o binary.ByteOrder = binary.LittleEndian
	if big {
		o = binary.BigEndian
	}
	_ = binary.Read(strings.NewReader(string(bs)), o, data)
}

func BinEncode(big bool, data any) []byte {
	var o binary.ByteOrder = binary.LittleEndian
	if big {
		o = binary.BigEndian
	}
	var sb strings.Builder
	_ = binary.Write(&sb, o, data)
	return []byte(sb.String())
}

func Sprintf(format string, a []any) string { return format }

func ErrorsAs(err error, target any) bool { return false }

func SortSlice(x any, less func(i, j int) bool) {}

func TypeName(x any) string { return "?" }

func Dummy() any { return nil }

// ---------- fmt / errors ----------

type errorString struct{ s string }

func (e *errorString) Error() string { return e.s }

type wrapError struct {
	msg string
	err error
}

func (e *wrapError) Error() string { return e.msg }
func (e *wrapError) Unwrap() error { return e.err }

//verif:stub fmt.Errorf
func FmtErrorf(format string, a ...any) error {
	msg := Sprintf(format, a)
	if strings.Contains(format, "%w") {
		for _, x := range a {
			if e, ok := x.(error); ok {
				return &wrapError{msg, e}
			}
		}
	}
	return &errorString{msg}
}

//verif:stub fmt.Sprintf
func FmtSprintf(format string, a ...any) string { return Sprintf(format, a) }

//verif:stub fmt.Sprint
func FmtSprint(a ...any) string { return Sprintf(strings.Repeat("%v", len(a)), a) }

//verif:stub fmt.Sprintln
func FmtSprintln(a ...any) string { return Sprintf(strings.Repeat("%v ", len(a)), a) + "\n" }

//verif:stub fmt.Fprintf
func FmtFprintf(w io.Writer, format string, a ...any) (int, error) {
	return w.Write([]byte(Sprintf(format, a)))
}

//verif:stub fmt.Fprint
func FmtFprint(w io.Writer, a ...any) (int, error) {
	return w.Write([]byte(Sprintf(strings.Repeat("%v", len(a)), a)))
}

//verif:stub fmt.Fprintln
func FmtFprintln(w io.Writer, a ...any) (int, error) {
	return w.Write([]byte(Sprintf(strings.Repeat("%v ", len(a)), a) + "\n"))
}

//verif:stub fmt.Printf
func FmtPrintf(format string, a ...any) (int, error) { return 0, nil }

//verif:stub fmt.Println
func FmtPrintln(a ...any) (int, error) { return 0, nil }

//verif:stub fmt.Print
func FmtPrint(a ...any) (int, error) { return 0, nil }

//verif:stub errors.Is
func ErrorsIs(err, target error) bool {
	if err == nil || target == nil {
		return err == target
	}
	for depth := 0; depth < 32; depth++ {
		if err == target {
			return true
		}
		if x, ok := err.(interface{ Is(error) bool }); ok && x.Is(target) {
			return true
		}
		switch x := err.(type) {
		case interface{ Unwrap() error }:
			err = x.Unwrap()
			if err == nil {
				return false
			}
		case interface{ Unwrap() []error }:
			for _, e := range x.Unwrap() {
				if ErrorsIs(e, target) {
					return true
				}
			}
			return false
		default:
			return false
		}
	}
	return false
}

//verif:stub errors.As
func ErrorsAsStub(err error, target any) bool { return ErrorsAs(err, target) }

// ---------- encoding/binary ----------

//verif:stub encoding/binary.Read
func BinaryRead(r io.Reader, order binary.ByteOrder, data any) error {
	n := BinSize(data)
	if n < 0 {
		panic("verifrt: binary.Read: unsupported type " + TypeName(data))
	}
	bs := make([]byte, n)
	if _, err := io.ReadFull(r, bs); err != nil {
		return err
	}
	BinDecode(bs, order == binary.ByteOrder(binary.BigEndian), data)
	return nil
}

//verif:stub encoding/binary.Write
func BinaryWrite(w io.Writer, order binary.ByteOrder, data any) error {
	n := BinSize(data)
	if n < 0 {
		panic("verifrt: binary.Write: unsupported type " + TypeName(data))
	}
	bs := BinEncode(order == binary.ByteOrder(binary.BigEndian), data)
	_, err := w.Write(bs)
	return err
}

//verif:stub encoding/binary.Size
func BinarySize(data any) int { return BinSize(data) }

// ---------- sort ----------

//verif:stub sort.Slice
func SortSliceStub(x any, less func(i, j int) bool) { SortSlice(x, less) }

//verif:stub sort.SliceStable
func SortSliceStableStub(x any, less func(i, j int) bool) { SortSlice(x, less) }

// ---------- hash/crc64 ----------

// Hash64 models hash/crc64's digest: it buffers what was written and folds at
// Sum64, which makes the result independent of how writes were chunked.
type Hash64 struct{ buf []byte }

func (h *Hash64) Write(p []byte) (int, error) {
	h.buf = append(h.buf, p...)
	return len(p), nil
}
func (h *Hash64) Sum64() uint64 { return CRCFold(0, h.buf) }
func (h *Hash64) Sum(b []byte) []byte {
	s := h.Sum64()
	return append(b, byte(s>>56), byte(s>>48), byte(s>>40), byte(s>>32), byte(s>>24), byte(s>>16), byte(s>>8), byte(s))
}
func (h *Hash64) Reset()         { h.buf = nil }
func (h *Hash64) Size() int      { return 8 }
func (h *Hash64) BlockSize() int { return 1 }

//verif:stub hash/crc64.New
func CRC64New(tab *crc64.Table) hash.Hash64 { return &Hash64{} }

//verif:stub hash/crc64.MakeTable
func CRC64MakeTable(poly uint64) *crc64.Table { return nil }

//verif:stub hash/crc64.Checksum
func CRC64Checksum(data []byte, tab *crc64.Table) uint64 { return CRCFold(0, data) }

//verif:stub hash/crc64.Update
func CRC64Update(crc uint64, tab *crc64.Table, p []byte) uint64 { return CRCFold(crc, p) }
