package verifrt

import (
	"context"
	"time"
)

// ---------- engine primitives ----------

// MkTime builds a time.Time whose model value is ns (Unix nanoseconds).
func MkTime(ns int64) time.Time { return time.Unix(0, ns) }

// TimeNS returns the model value of t.
func TimeNS(t time.Time) int64 { return t.UnixNano() }

// NS2MS / MS2NS convert between ns and ms (uninterpreted when symbolic).
func NS2MS(ns int64) int64 { return ns / 1e6 }
func MS2NS(ms int64) int64 { return ms * 1e6 }

// ChanModel gives an abstract channel its behaviour.
type ChanModel interface {
	Ready() bool       // may a receive proceed now?
	Recv() (any, bool) // value and ok (false = closed)
}

func NewChanStruct(m ChanModel) <-chan struct{} { return nil }
func NewChanTime(m ChanModel) <-chan time.Time  { return nil }

// ---------- clock ----------

var (
	clock      int64
	clockInit  bool
	ClockDelta int64 = 1 << 40 // max jump per observation (ns)
)

func clockStart() {
	if !clockInit {
		clockInit = true
		clock = I64("clk.start")
		Assume(clock >= 1<<20)
		Assume(clock <= 1<<60)
	}
}

// ClockNow observes the clock: it advances by an arbitrary amount in [0, ClockDelta].
func ClockNow() int64 {
	clockStart()
	d := I64("clk.d")
	Assume(d >= 0)
	Assume(d <= ClockDelta)
	clock += d
	return clock
}

// ClockAdvance moves the clock forward by exactly d.
func ClockAdvance(d int64) {
	clockStart()
	if d > 0 {
		Assume(d <= 1<<50)
		clock += d
	}
}

//verif:stub time.Now
func TimeNow() time.Time { return MkTime(ClockNow()) }

//verif:stub time.Since
func TimeSince(t time.Time) time.Duration { return time.Duration(ClockNow() - TimeNS(t)) }

//verif:stub time.Until
func TimeUntil(t time.Time) time.Duration { return time.Duration(TimeNS(t) - ClockNow()) }

//verif:stub time.Sleep
func TimeSleep(d time.Duration) { ClockAdvance(int64(d)) }

//verif:stub time.Unix
func TimeUnix(sec, nsec int64) time.Time { return MkTime(sec*1e9 + nsec) }

//verif:stub time.UnixMilli
func TimeUnixMilli(ms int64) time.Time { return MkTime(MS2NS(ms)) }

//verif:stub (time.Time).Add
func TimeAdd(t time.Time, d time.Duration) time.Time { return MkTime(TimeNS(t) + int64(d)) }

//verif:stub (time.Time).Sub
func TimeSub(t, u time.Time) time.Duration { return time.Duration(TimeNS(t) - TimeNS(u)) }

//verif:stub (time.Time).After
func TimeAfter(t, u time.Time) bool { return TimeNS(t) > TimeNS(u) }

//verif:stub (time.Time).Before
func TimeBefore(t, u time.Time) bool { return TimeNS(t) < TimeNS(u) }

//verif:stub (time.Time).Equal
func TimeEqual(t, u time.Time) bool { return TimeNS(t) == TimeNS(u) }

//verif:stub (time.Time).Compare
func TimeCompare(t, u time.Time) int {
	if TimeNS(t) < TimeNS(u) {
		return -1
	} else if TimeNS(t) > TimeNS(u) {
		return 1
	}
	return 0
}

//verif:stub (time.Time).IsZero
func TimeIsZero(t time.Time) bool { return TimeNS(t) == 0 }

//verif:stub (time.Time).UnixMilli
func TimeUnixMilliOf(t time.Time) int64 { return NS2MS(TimeNS(t)) }

//verif:stub (time.Time).UnixNano
func TimeUnixNanoOf(t time.Time) int64 { return TimeNS(t) }

//verif:stub (time.Time).UTC
func TimeUTC(t time.Time) time.Time { return t }

//verif:stub (time.Time).Local
func TimeLocal(t time.Time) time.Time { return t }

//verif:stub (time.Time).Round
func TimeRound(t time.Time, d time.Duration) time.Time { return t }

//verif:stub (time.Time).Truncate
func TimeTruncate(t time.Time, d time.Duration) time.Time { return t }

//verif:stub (time.Time).Format
func TimeFormat(t time.Time, layout string) string { return "<time>" }

//verif:stub (time.Time).String
func TimeString(t time.Time) string { return "<time>" }

//verif:stub (time.Time).MarshalJSON
func TimeMarshalJSON(t time.Time) ([]byte, error) { return []byte(`"<time>"`), nil }

// ---------- timers ----------

type tickModel struct {
	d       time.Duration
	once    bool
	fired   bool
	stopped bool
	created int64 // clock value when the timer was made
}

// Deferrable: a one-shot timer with a positive duration for which no model time
// has passed since it was created cannot be due yet; a select prefers any other
// ready case over it.
func (m *tickModel) Deferrable() bool {
	return m.once && !m.fired && m.d > 0 && m.created == clock
}

func (m *tickModel) Ready() bool { return !m.stopped && !(m.once && m.fired) }
func (m *tickModel) Recv() (any, bool) {
	ClockAdvance(int64(m.d))
	m.fired = true
	Ticks++
	if OnTick != nil {
		OnTick()
	}
	return MkTime(clock), true
}

// OnTick, when set by a harness, runs at every timer/ticker delivery: the
// place where the environment acts between two polls of a waiting loop.
var OnTick func()

// Ticks counts timer/ticker deliveries.
var Ticks int

var timerModels = map[*time.Timer]*tickModel{}
var tickerModels = map[*time.Ticker]*tickModel{}

//verif:stub time.NewTicker
func TimeNewTicker(d time.Duration) *time.Ticker {
	m := &tickModel{d: d}
	t := &time.Ticker{C: NewChanTime(m)}
	tickerModels[t] = m
	return t
}

//verif:stub (*time.Ticker).Stop
func TickerStop(t *time.Ticker) {
	if m := tickerModels[t]; m != nil {
		m.stopped = true
	}
}

//verif:stub (*time.Ticker).Reset
func TickerReset(t *time.Ticker, d time.Duration) {
	if m := tickerModels[t]; m != nil {
		m.d, m.stopped = d, false
	}
}

//verif:stub time.NewTimer
func TimeNewTimer(d time.Duration) *time.Timer {
	m := &tickModel{d: d, once: true, created: clock}
	t := &time.Timer{C: NewChanTime(m)}
	timerModels[t] = m
	return t
}

//verif:stub (*time.Timer).Stop
func TimerStop(t *time.Timer) bool {
	m := timerModels[t]
	if m == nil {
		return false
	}
	was := !m.fired && !m.stopped
	m.stopped = true
	return was
}

//verif:stub (*time.Timer).Reset
func TimerReset(t *time.Timer, d time.Duration) bool {
	m := timerModels[t]
	if m == nil {
		return false
	}
	was := !m.fired && !m.stopped
	m.d, m.fired, m.stopped = d, false, false
	return was
}

//verif:stub time.After
func TimeAfterChan(d time.Duration) <-chan time.Time {
	return NewChanTime(&tickModel{d: d, once: true, created: clock})
}

//verif:stub time.AfterFunc
func TimeAfterFunc(d time.Duration, f func()) *time.Timer {
	// The callback is never run by the model (timer-driven work is outside the claims).
	m := &tickModel{d: d, once: true, stopped: true}
	t := &time.Timer{}
	timerModels[t] = m
	return t
}

// ---------- context ----------

// Ctx models context.Context. A context is done when it was cancelled by its
// cancel function, when an ancestor is done, or - if Env is set - when the
// environment decides so (a fresh symbolic choice at every poll; after MaxPolls
// polls the environment is assumed to cancel).
type Ctx struct {
	parent   context.Context
	done     bool
	cause    error
	err      error
	Env      bool
	EnvErr   error
	MaxPolls int
	polls    int
	ch       <-chan struct{}
	key, val any
	hasDL    bool
	deadline time.Time
}

func (c *Ctx) Ready() bool {
	if c.done {
		return true
	}
	if p, ok := c.parent.(*Ctx); ok && p != nil && p.Ready() {
		c.done, c.err, c.cause = true, p.err, p.cause
		return true
	}
	if c.Env {
		if c.polls >= c.MaxPolls || Bool("ctx.cancel") {
			c.done, c.err, c.cause = true, c.EnvErr, c.EnvErr
			return true
		}
		c.polls++
	}
	return false
}

// Wait is used for a plain blocking receive on Done(): the only way it can
// return is that the context becomes done.
func (c *Ctx) Wait() {
	if c.Ready() {
		return
	}
	if c.Env {
		c.done, c.err, c.cause = true, c.EnvErr, c.EnvErr
		return
	}
	Assume(false) // blocks forever
}

func (c *Ctx) Recv() (any, bool) { return nil, false }

func (c *Ctx) Done() <-chan struct{} {
	if c.ch == nil {
		c.ch = NewChanStruct(c)
	}
	return c.ch
}

func (c *Ctx) Err() error {
	if c.done {
		return c.err
	}
	// Err() does not poll the environment; ancestors that are already done count.
	if p, ok := c.parent.(*Ctx); ok && p != nil && p.done {
		return p.err
	}
	return nil
}

func (c *Ctx) Deadline() (time.Time, bool) {
	if c.hasDL {
		return c.deadline, true
	}
	if c.parent != nil {
		return c.parent.Deadline()
	}
	return time.Time{}, false
}

func (c *Ctx) Value(k any) any {
	if c.key != nil && c.key == k {
		return c.val
	}
	if c.parent != nil {
		return c.parent.Value(k)
	}
	return nil
}

func (c *Ctx) cancel(err, cause error) {
	if !c.done {
		c.done, c.err, c.cause = true, err, cause
		if cause == nil {
			c.cause = err
		}
	}
}

var background = &Ctx{}

// NewEnvCtx returns a context the environment may cancel at any poll and does
// cancel after maxPolls polls.
func NewEnvCtx(maxPolls int) context.Context {
	return &Ctx{Env: true, EnvErr: context.Canceled, MaxPolls: maxPolls}
}

//verif:stub context.Background
func CtxBackground() context.Context { return background }

//verif:stub context.TODO
func CtxTODO() context.Context { return background }

//verif:stub context.WithCancel
func CtxWithCancel(parent context.Context) (context.Context, context.CancelFunc) {
	c := &Ctx{parent: parent}
	return c, func() { c.cancel(context.Canceled, nil) }
}

//verif:stub context.WithCancelCause
func CtxWithCancelCause(parent context.Context) (context.Context, context.CancelCauseFunc) {
	c := &Ctx{parent: parent}
	return c, func(cause error) { c.cancel(context.Canceled, cause) }
}

// TimeoutsMayFire: when false, WithTimeout/WithDeadline contexts never expire
// on their own (they still follow their parent and their cancel function).
var TimeoutsMayFire = true

// TimeoutPolls is the number of polls after which a WithTimeout/WithDeadline
// context is assumed to expire.
var TimeoutPolls = 2

//verif:stub context.WithTimeout
func CtxWithTimeout(parent context.Context, d time.Duration) (context.Context, context.CancelFunc) {
	c := &Ctx{parent: parent, Env: TimeoutsMayFire, EnvErr: context.DeadlineExceeded, MaxPolls: TimeoutPolls, hasDL: true}
	return c, func() { c.cancel(context.Canceled, nil) }
}

//verif:stub context.WithTimeoutCause
func CtxWithTimeoutCause(parent context.Context, d time.Duration, cause error) (context.Context, context.CancelFunc) {
	c := &Ctx{parent: parent, Env: TimeoutsMayFire, EnvErr: context.DeadlineExceeded, MaxPolls: TimeoutPolls, hasDL: true}
	return c, func() { c.cancel(context.Canceled, nil) }
}

//verif:stub context.WithDeadline
func CtxWithDeadline(parent context.Context, t time.Time) (context.Context, context.CancelFunc) {
	c := &Ctx{parent: parent, Env: TimeoutsMayFire, EnvErr: context.DeadlineExceeded, MaxPolls: TimeoutPolls, hasDL: true, deadline: t}
	return c, func() { c.cancel(context.Canceled, nil) }
}

//verif:stub context.WithValue
func CtxWithValue(parent context.Context, key, val any) context.Context {
	return &Ctx{parent: parent, key: key, val: val}
}

//verif:stub context.WithoutCancel
func CtxWithoutCancel(parent context.Context) context.Context {
	return &Ctx{}
}

//verif:stub context.Cause
func CtxCause(c context.Context) error {
	if x, ok := c.(*Ctx); ok {
		if x.done {
			return x.cause
		}
		if p, ok := x.parent.(*Ctx); ok && p != nil && p.done {
			return p.cause
		}
		return nil
	}
	return c.Err()
}

//verif:stub time.Date
func TimeDate(year int, month time.Month, day, hour, min, sec, nsec int, loc *time.Location) time.Time {
	// only the order of dates matters to the code under test: a coarse monotone encoding
	days := int64(year-1970)*372 + int64(month-1)*31 + int64(day-1)
	return MkTime(((days*24+int64(hour))*3600+int64(min)*60+int64(sec))*1e9 + int64(nsec))
}
