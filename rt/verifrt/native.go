package verifrt

import (
	"fmt"
	"os"
	"path/filepath"
	"sort"
	"strings"
)

var reached []string

// RunNativeDir replays every *.json file in $VERIF_REPLAY_DIR against the
// natively compiled harnesses and prints one result line per file.
func RunNativeDir(harnesses map[string]func()) {
	dir := os.Getenv("VERIF_REPLAY_DIR")
	if dir == "" {
		return
	}
	files, _ := filepath.Glob(filepath.Join(dir, "*.json"))
	sort.Strings(files)
	for _, f := range files {
		if err := LoadReplay(f); err != nil {
			fmt.Printf("VERIF-NATIVE-RESULT file=%s outcome=error:%v\n", filepath.Base(f), err)
			continue
		}
		h := harnesses[replay.Harness]
		if h == nil {
			fmt.Printf("VERIF-NATIVE-RESULT file=%s outcome=error:unknown-harness:%s\n", filepath.Base(f), replay.Harness)
			continue
		}
		tier = replay.Tier
		reached = nil
		outcome := runOne(h)
		CleanupTempDirs()
		fmt.Printf("VERIF-NATIVE-RESULT file=%s outcome=%s reached=%s\n", filepath.Base(f), outcome, strings.Join(reached, ","))
	}
}

func runOne(h func()) (outcome string) {
	defer func() {
		if r := recover(); r != nil {
			switch e := r.(type) {
			case CheckFailed:
				outcome = "fail:" + e.Msg
			case AssumeFailed:
				outcome = "assume-failed"
			default:
				outcome = fmt.Sprintf("panic:%v", r)
			}
			outcome = strings.ReplaceAll(outcome, "\n", " ")
		}
	}()
	h()
	return "ok"
}
