#!/bin/bash
# usage: seed_recheck.sh <name> [PROP]   re-runs a property's check against /repo + seeded/<name>/patch.diff in a scratch worktree
set -u
NAME=$1; OUT=/verif/seeded/$NAME
P=${2:-$(python3 -c "import json;print(json.load(open('$OUT/meta.json'))['property'])")}
S=/tmp/seedchk-$NAME-$$; rm -rf $S; git -C /repo worktree add -q --detach $S HEAD
(cd $S && git apply $OUT/patch.diff) || { echo "patch does not apply"; git -C /repo worktree remove --force $S; exit 2; }
(cd /verif && VERIF_REPO=$S timeout 3000 ./bin/vcheck run $P --no-evidence > $OUT/check_output.txt 2>&1); CHK=$?
git -C /repo worktree remove --force $S
grep -E "^VIOLATION|^  [a-z0-9-]+: |INCONCLUSIVE|^OK" $OUT/check_output.txt | cut -c1-220 | head -8
echo "$NAME property=$P check_exit=$CHK"
python3 - <<EOP
import json
p='$OUT/meta.json'; m=json.load(open(p))
if '$P'==m['property']:
    m['check_exit']=$CHK; m['caught_now']=($CHK==1)
json.dump(m,open(p,'w'),indent=1)
EOP
