import json,sys
pid=sys.argv[1]
focus={'C04': 'the checksum after a restart (how it is rebuilt from disk in WAL mode with committed frames, after a WAL restart, or with a database that shrank), and after an import into an existing database with more pages than the import', 'C07': 'truncation and removal of the database, journal and WAL files on a node without write authority, the import endpoint on a replica, and a commit step that begins just after the halt lock or lease was lost', 'C08': 'the non-candidate node, the cluster-id comparison (empty versus set ids on either side, when it is stored), and to whom a handoff may transfer the lease', 'C11': 'which locks the checkpoint, the journal rollback (recover) and the halt-lock acquisition take and in which order they are released on error paths; the shm lock bytes (WAL_WRITE/CKPT/RECOVER/READ0..4) as seen by the shared-memory handle', 'C12': 'downgrade from exclusive to shared with waiting readers, an owner holding shared asking again, and the state copies/guards (e.g. GuardSet unlock-all, CanLock answers) rather than the basic lock table', 'C18': 'the handoff, ready, heartbeat, drop-db and end frames and the LTX frame name field; chunked bodies of exactly the maximum chunk size and the final zero-length chunk', 'C19': 'the cookie written after a write on the primary (which database, which position, when it is read), databases that do not exist yet, HEAD/OPTIONS requests, and the passthrough patterns', 'C20': 'endpoints /halt (acquire/release with odd ids), /handoff, /promote, /export of a name that does not exist, /import with a bad name, and query parameter parsing (ids in hex, empty names)'}
for l in open('/verif/properties.jsonl'):
    p=json.loads(l)
    if p['id']==pid: break
print(f'''You are helping evaluate a verification effort for the Go project superfly/litefs (a FUSE filesystem that replicates SQLite databases). Your job: introduce ONE realistic regression into the code that breaks the property below, and demonstrate it.

Work ONLY inside the git worktree /tmp/seed9/{pid} (a checkout of the repository). Do not touch /repo or /verif and do not read anything under /verif. Do NOT use `git stash`, `git checkout`, `git worktree` or `git reset` (the stash and refs are shared with other worktrees): to compare with and without your change, keep a copy of the original file(s) next to the worktree (e.g. /tmp/seed9/{pid}.orig/) and copy files back and forth.

PROPERTY {p['id']}: {p['title']}
Statement: {p['statement']}
Quantified over: {p['quantifier']['text']}
Relevant files: {', '.join(p['anchors']['files'])}

Aim at this part of the property in particular (an earlier exercise already covered other parts): {focus[pid]}.

Requirements for the change:
1. It must be a change to non-test source files of the repository (not tests), small (a few lines), of the kind a plausible refactoring or "optimisation" or off-by-one or forgotten case could introduce.
2. The repository must still compile and the existing tests that pass today must still pass. Environment: run `export GOFLAGS=-mod=mod GOPROXY=off GOSUMDB=off GOTOOLCHAIN=local` first (no network). Check with: `go build ./... && go test -vet=off -count=1 . ./http/... ./internal/... ./lfsc/... ./cmd/...` and `go test -vet=off -count=1 -run 'TestFileTypeFilename|TestParseFilename|TestToErrno' ./fuse/` (the other fuse tests need a kernel FUSE mount and fail in this sandbox regardless; ignore them). Some tests are flaky under load; re-run a failing test alone with and without your change before concluding it is caused by your change.
3. It must need something specific to manifest - a particular interleaving, a crash or fault at a particular point, a multi-step sequence of operations, an unusual input or size (e.g. a boundary value), or two cooperating sites that each look fine alone. NOT something that ordinary use would expose at once.
4. Demonstrate it: add a NEW test file (name it zz_seed_demo_test.go, in the package directory it tests; test function names start with TestSeed) that passes on the original code and fails with your change, by driving the real code (no mocks of the code under test). It must run without FUSE and without network. Run it both ways and record the outputs.
5. When done, leave the worktree with your source change applied (uncommitted) plus the demo test file, and write /tmp/seed9/{pid}/SEED_REPORT.md with: the diff summary, which part of the property it breaks, what exactly is needed for it to manifest, and the exact commands you ran with their results.

Keep the change minimal and do not modify any existing test. Produce exactly one seeded change. Finish by printing the path of the report.''')
