#!/usr/bin/env python3
"""Runs the repository test suite (guard off) and compares with /root/.vp/BASELINE.json stable_pass."""
import json, subprocess, sys
REPO = sys.argv[1] if len(sys.argv) > 1 else '/repo'
base = json.load(open('/root/.vp/BASELINE.json'))
want = set(base['stable_pass'])
p = subprocess.run(f'cd {REPO} && go test -mod=mod -json -vet=off -count=1 -timeout 25m -skip "TestSeed|TestVerif" ./...', shell=True, capture_output=True, text=True)
passed = set()
for line in p.stdout.splitlines():
    try:
        e = json.loads(line)
    except Exception:
        continue
    if e.get('Action') == 'pass' and e.get('Test'):
        passed.add(f"{e['Package']}::{e['Test']}")
missing = sorted(want - passed)
print(f'stable_pass={len(want)} passed_now={len(passed & want)} missing={len(missing)}')
for m in missing:
    print('  MISSING', m)
sys.exit(1 if missing else 0)
