import json,sys
pid=sys.argv[1]
focus={'C01': 'a replica applying a transaction while an application connection on the replica holds a read lock or has the database open in WAL mode (what is written where: database file vs WAL, shm invalidation), and applying a transaction that changes the page size or mode', 'C02': 'transactions that shrink the database (truncate before/after the page writes), transactions spanning the lock page (page at byte offset 1 GiB), and the PERSIST / TRUNCATE journal modes where the journal header is zeroed or the file truncated instead of deleted', 'C03': 'WAL frames written to an offset that overwrites earlier uncommitted frames, a commit frame followed by further frames in the same write-lock hold, the salt/checksum chain across a WAL restart, and reading a page back while a transaction is in progress', 'C06': 'the very beginning of a stream (position map exchange, which databases are sent when the replica knows databases the primary does not, or vice versa), the Ready frame, and heartbeats/HWM frames relative to transactions', 'C17': 'the WAL header and frame parsing side: checksum byte order from the magic, frame salts, a WAL shorter than one frame, page size field (1 means 65536), and how the reader reports a partial last frame', 'C12': 'the blocking Lock/RLock variants (polling interval, context cancellation exactly when the lock becomes free, returning the context cause) and GuardSet helpers that lock or unlock several mutexes at once', 'C07': 'the FUSE-facing operations on a replica other than page writes: creating a journal or WAL file, truncating or removing the database/journal/WAL/shm, fsync, and what a halt-lock holder may do that a plain replica may not', 'C08': 'renewal timing on the primary (how the deadline is computed from the last successful renewal, what counts as success), what is cancelled and destroyed on demotion versus handoff, and candidate=false nodes'}
for l in open('/verif/properties.jsonl'):
    p=json.loads(l)
    if p['id']==pid: break
print(f'''You are helping evaluate a verification effort for the Go project superfly/litefs (a FUSE filesystem that replicates SQLite databases). Your job: introduce ONE realistic regression into the code that breaks the property below, and demonstrate it.

Work ONLY inside the git worktree /tmp/seed11/{pid} (a checkout of the repository). Do not touch /repo or /verif and do not read anything under /verif. Do NOT use `git stash`, `git checkout`, `git worktree` or `git reset` (the stash and refs are shared with other worktrees): to compare with and without your change, keep a copy of the original file(s) next to the worktree (e.g. /tmp/seed11/{pid}.orig/) and copy files back and forth.

PROPERTY {p['id']}: {p['title']}
Statement: {p['statement']}
Quantified over: {p['quantifier']['text']}
Relevant files: {', '.join(p['anchors']['files'])}

Aim at this part of the property in particular (an earlier exercise already covered other parts): {focus[pid]}.

Requirements for the change:
1. It must be a change to non-test source files of the repository (not tests), small (a few lines), of the kind a plausible refactoring or "optimisation" or off-by-one or forgotten case could introduce.
2. The repository must still compile and the existing tests that pass today must still pass. Environment: run `export GOFLAGS=-mod=mod GOPROXY=off GOSUMDB=off GOTOOLCHAIN=local` first (no network). Check with: `go build ./... && go test -vet=off -count=1 . ./http/... ./internal/... ./lfsc/... ./cmd/...` and `go test -vet=off -count=1 -run 'TestFileTypeFilename|TestParseFilename|TestToErrno' ./fuse/` (the other fuse tests need a kernel FUSE mount and fail in this sandbox regardless; ignore them). Some tests are flaky under load; re-run a failing test alone with and without your change before concluding it is caused by your change.
3. It must need something specific to manifest - a particular interleaving, a crash or fault at a particular point, a multi-step sequence of operations, an unusual input or size (e.g. a boundary value), or two cooperating sites that each look fine alone. NOT something that ordinary use would expose at once.
4. Demonstrate it: add a NEW test file (name it zz_seed_demo_test.go, in the package directory it tests; test function names start with TestSeed) that passes on the original code and fails with your change, by driving the real code (no mocks of the code under test). It must run without FUSE and without network. Run it both ways and record the outputs.
5. When done, leave the worktree with your source change applied (uncommitted) plus the demo test file, and write /tmp/seed11/{pid}/SEED_REPORT.md with: the diff summary, which part of the property it breaks, what exactly is needed for it to manifest, and the exact commands you ran with their results.

Keep the change minimal and do not modify any existing test. Produce exactly one seeded change. Finish by printing the path of the report.''')
