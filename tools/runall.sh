#!/bin/bash
# runs every registered check (quick by default) and prints a one-line summary each
TIER=${1:-quick}
cd /verif
for p in $(python3 -c "import json;print(' '.join(c['property_id'] for c in json.load(open('MANIFEST.json'))['checks']))"); do
  s=$(date +%s)
  out=$(timeout 3000 ./bin/vcheck run $p --tier $TIER 2>&1); rc=$?
  e=$(date +%s)
  echo "$p exit=$rc wall=$((e-s))s $(echo "$out" | grep -cE '^VIOLATION') violations $(echo "$out" | grep -c INCONCLUSIVE) inconclusive"
  [ $rc -ne 0 ] && echo "$out" | grep -E "VIOLATION|INCONCLUSIVE" | cut -c1-250 | head -5
done
