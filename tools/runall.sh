#!/bin/bash
# runs every registered check (quick by default) and prints a one-line summary each; full output in out/run-<tier>/<id>.log
TIER=${1:-quick}; shift
cd /verif
mkdir -p out/run-$TIER
PROPS=${*:-$(python3 -c "import json;print(' '.join(c['property_id'] for c in json.load(open('MANIFEST.json'))['checks']))")}
for p in $PROPS; do
  s=$(date +%s)
  timeout 7200 ./bin/vcheck run $p --tier $TIER > out/run-$TIER/$p.log 2>&1; rc=$?
  e=$(date +%s)
  echo "$p exit=$rc wall=$((e-s))s $(grep -cE '^VIOLATION' out/run-$TIER/$p.log) violations $(grep -c INCONCLUSIVE out/run-$TIER/$p.log) inconclusive"
  [ $rc -ne 0 ] && grep -E "VIOLATION|INCONCLUSIVE" out/run-$TIER/$p.log | cut -c1-250 | head -5
done
