#!/usr/bin/env python3
"""Regenerates /verif/MANIFEST.json from props/*.json and tools/na.json."""
import json, glob, os
V = '/verif'
props = [json.loads(l)['id'] for l in open(f'{V}/properties.jsonl')]
na = json.load(open(f'{V}/tools/na.json')) if os.path.exists(f'{V}/tools/na.json') else {}
checks, claimed = [], []
for p in props:
    f = f'{V}/props/{p}.json'
    if not os.path.exists(f) or p in na:
        continue
    s = json.load(open(f))
    if not s.get('registered', True):
        continue
    claimed.append(p)
    bounds = '; '.join(f'{k}: {v}' for k, v in s.get('bounds', {}).items())
    checks.append({
        'property_id': p,
        'quick_cmd': f'./bin/vcheck run {p} --tier quick',
        'thorough_cmd': f'./bin/vcheck run {p} --tier thorough',
        'evidence_file': f'/verif/evidence/{p}.json',
        'replay_cmd_template': './bin/vcheck replay {path}',
        'engine': 'symgo',
        'level_claimed': {
            'category': 'model_checking',
            'text': s.get('level_text', 'Bounded symbolic model checking of the real functions (Go SSA executed symbolically, obligations discharged by z3). Bounds: ' + bounds),
            'design_ref': s.get('design_ref', 'DESIGN.md section 3, ' + p),
        },
        'level_note': 'Holds for all values of the symbolic inputs within the stated bounds only; stubs/assumptions: ' + '; '.join(s.get('stubs', []) + s.get('assumptions', [])) + '. Outside the claim: ' + '; '.join(s.get('outside', [])),
        'technique': s.get('technique', 'symbolic execution of go/ssa + SMT (z3), bounded'),
    })
m = {
    'version': 1,
    'setup_cmd': 'cd /verif/engine && GOFLAGS=-mod=mod GOPROXY=off GOSUMDB=off GOTOOLCHAIN=local go build -o /verif/bin/vcheck ./cmd/vcheck',
    'hooks': {'guard': 'verif', 'enable': 'none needed: harnesses are injected with a go/packages overlay (and go test -overlay for native replay); /repo carries no hook commits',
              'baseline_off_cmd': 'cd /repo && go test -mod=mod -vet=off -count=1 -timeout 25m ./...', 'source_commits': [], 'add_only': True},
    'engines': [{'name': 'symgo', 'path': 'engine', 'serves_properties': claimed,
                 'kind_free_text': 'own Go SSA -> SMT-LIB2 path-forking symbolic executor (golang.org/x/tools/go/ssa v0.29.0, z3 4.8.12 on stdin), bounded; counterexamples replayed concretely and, where possible, natively with go test -overlay'}],
    'checks': checks,
    'not_applicable': [{'property_id': p, 'reason': na.get(p, 'check not built yet (engine under construction)')} for p in props if p not in claimed],
    'notes': 'Exit codes: 0 held within bounds; 1 VIOLATION (reproduced); 3 INCONCLUSIVE (solver unknown, unwinding bound, unsupported construct, vacuity) - never reported as success. See DESIGN.md.',
}
json.dump(m, open(f'{V}/MANIFEST.json', 'w'), indent=1)
print('claimed', claimed)
