import json,sys
pid=sys.argv[1]
focus={'C05': 'restart recovery itself: what DB.Open / Store.Open do with the WAL file, the shared-memory file, a journal left by a crash, and databases whose directory exists but holds no transaction files', 'C10': 'rollback-journal mode snapshots and exports: which lock is held while reading, what happens if a writer is waiting in PENDING, and the position/checksum recorded in the snapshot header and trailer versus the pages actually copied', 'C11': 'the recovery / checkpoint performed when a halt lock is acquired or released, the remote halt lock on a replica (which local locks it takes, when it is unset), and the order in which a guard set releases its locks', 'C13': 'the primary side of the halt lock: expiry and renewal of the TTL while transactions keep arriving, what happens to the lock when the primary is demoted or the database is dropped, and the position returned with the lock', 'C14': 'restoring from the backup service when it is ahead of or diverged from the primary (same TXID other checksum), what the primary does with its own newer local transactions, and the position map exchanged with the service', 'C15': 'replicas and late joiners: how a drop reaches a replica that is connected, one that connects later, and one that was itself holding the database open; the DropDB stream frame versus the tombstone file', 'C16': 'export (the database file produced for a client) in WAL mode with frames not yet checkpointed, and import into a WAL-mode database: what happens to the existing WAL and shared-memory files and to the mode afterwards', 'C09': 'the compaction / concatenation of several transaction files into one (ranges min..max), snapshot files replacing a chain, and TXID ranges seen by a replica that reconnects after falling behind retention'}
for l in open('/verif/properties.jsonl'):
    p=json.loads(l)
    if p['id']==pid: break
print(f'''You are helping evaluate a verification effort for the Go project superfly/litefs (a FUSE filesystem that replicates SQLite databases). Your job: introduce ONE realistic regression into the code that breaks the property below, and demonstrate it.

Work ONLY inside the git worktree /tmp/seed10/{pid} (a checkout of the repository). Do not touch /repo or /verif and do not read anything under /verif. Do NOT use `git stash`, `git checkout`, `git worktree` or `git reset` (the stash and refs are shared with other worktrees): to compare with and without your change, keep a copy of the original file(s) next to the worktree (e.g. /tmp/seed10/{pid}.orig/) and copy files back and forth.

PROPERTY {p['id']}: {p['title']}
Statement: {p['statement']}
Quantified over: {p['quantifier']['text']}
Relevant files: {', '.join(p['anchors']['files'])}

Aim at this part of the property in particular (an earlier exercise already covered other parts): {focus[pid]}.

Requirements for the change:
1. It must be a change to non-test source files of the repository (not tests), small (a few lines), of the kind a plausible refactoring or "optimisation" or off-by-one or forgotten case could introduce.
2. The repository must still compile and the existing tests that pass today must still pass. Environment: run `export GOFLAGS=-mod=mod GOPROXY=off GOSUMDB=off GOTOOLCHAIN=local` first (no network). Check with: `go build ./... && go test -vet=off -count=1 . ./http/... ./internal/... ./lfsc/... ./cmd/...` and `go test -vet=off -count=1 -run 'TestFileTypeFilename|TestParseFilename|TestToErrno' ./fuse/` (the other fuse tests need a kernel FUSE mount and fail in this sandbox regardless; ignore them). Some tests are flaky under load; re-run a failing test alone with and without your change before concluding it is caused by your change.
3. It must need something specific to manifest - a particular interleaving, a crash or fault at a particular point, a multi-step sequence of operations, an unusual input or size (e.g. a boundary value), or two cooperating sites that each look fine alone. NOT something that ordinary use would expose at once.
4. Demonstrate it: add a NEW test file (name it zz_seed_demo_test.go, in the package directory it tests; test function names start with TestSeed) that passes on the original code and fails with your change, by driving the real code (no mocks of the code under test). It must run without FUSE and without network. Run it both ways and record the outputs.
5. When done, leave the worktree with your source change applied (uncommitted) plus the demo test file, and write /tmp/seed10/{pid}/SEED_REPORT.md with: the diff summary, which part of the property it breaks, what exactly is needed for it to manifest, and the exact commands you ran with their results.

Keep the change minimal and do not modify any existing test. Produce exactly one seeded change. Finish by printing the path of the report.''')
