#!/bin/bash
# usage: seed_eval.sh <PROP> <seed-worktree> <name>
# Confirms a seeded change (demo fails with it, passes without, baseline tests pass), stores it under
# /verif/seeded/<name>/ and runs the property's check against /repo with the change applied.
set -u
P=$1; W=$2; NAME=$3
export GOFLAGS=-mod=mod GOPROXY=off GOSUMDB=off GOTOOLCHAIN=local
OUT=/verif/seeded/$NAME; mkdir -p $OUT
git -C $W diff > $OUT/patch.diff
DEMOS=$(git -C $W ls-files --others --exclude-standard | grep '_test.go$')
for d in $DEMOS; do mkdir -p $OUT/demo/$(dirname $d); cp $W/$d $OUT/demo/$d; done
cp $W/SEED_REPORT.md $OUT/ 2>/dev/null
S=/tmp/seedchk-$NAME; rm -rf $S; git -C /repo worktree add -q --detach $S HEAD
for d in $DEMOS; do mkdir -p $S/$(dirname $d); cp $W/$d $S/$d; done
PKGS=$(for d in $DEMOS; do echo ./$(dirname $d); done | sort -u | tr '\n' ' ')
(cd $S && timeout 600 go test -vet=off -count=1 -run 'TestSeed|Seed' $PKGS > /tmp/seed_without.log 2>&1); WITHOUT=$?
(cd $S && git apply $OUT/patch.diff && timeout 600 go test -vet=off -count=1 -run 'TestSeed|Seed' $PKGS > /tmp/seed_with.log 2>&1); WITH=$?
(cd $S && go build ./... > /tmp/seed_build.log 2>&1); BUILD=$?
python3 /verif/tools/baseline.py $S > /tmp/seed_base.log 2>&1; BASE=$?
echo "demo_without_patch_exit=$WITHOUT (want 0) demo_with_patch_exit=$WITH (want !=0) build=$BUILD baseline=$BASE"
tail -1 /tmp/seed_base.log
# run the check against the scratch worktree with the change applied (VERIF_REPO), demo files removed
for d in $DEMOS; do rm -f $S/$d; done
(cd /verif && VERIF_REPO=$S timeout 2400 ./bin/vcheck run $P --no-evidence > $OUT/check_output.txt 2>&1); CHK=$?
git -C /repo worktree remove --force $S
grep -E "^VIOLATION|^  c[0-9]|INCONCLUSIVE|^OK" $OUT/check_output.txt | cut -c1-220 | head -12
echo "check_exit=$CHK"
cat > $OUT/meta.json <<EOM
{"property": "$P", "name": "$NAME", "demo_without_patch_exit": $WITHOUT, "demo_with_patch_exit": $WITH, "build_exit": $BUILD, "baseline_exit": $BASE, "check_exit": $CHK,
 "ran": ["go test -run TestSeed (with and without patch) in a scratch worktree", "python3 tools/baseline.py <worktree> (stable_pass set)", "VERIF_REPO=<scratch worktree with patch.diff applied> bin/vcheck run $P (equivalent to applying the patch to /repo)"]}
EOM
