import json,sys
pid=sys.argv[1]
focus={
"C01":"the replica apply path: databases that grow and shrink, sizes around the lock page or the 256-page checksum blocks, a replica that rejoins lagging by k or after retention trimmed the log",
"C02":"'no page beyond the new size or on the lock page', 'a write lock taken without writing leaves the image and checksum unchanged', PERSIST/TRUNCATE finalisation, multi-segment journals, databases created from nothing",
"C03":"'both checksum byte orders', 'split header/body frame writes', 'rolled-back frames later overwritten at the same offsets', 'frames left over from an earlier generation of the log'",
"C04":"the checksum after applying a replicated transaction or snapshot, after a drop, or after restart recovery; databases containing the lock page; sizes exactly 256/257/512/513 pages",
"C05":"a crash while a replica applies a transaction or snapshot, or during a checkpoint; 'a transaction whose commit already returned success to SQLite is not lost'; WAL mode",
"C06":"'a pre-checksum that does not match the next file', 'a gap the primary can no longer serve', 'any transaction file that does not extend a node's exact current (ID, checksum) is rejected without modifying that node's database or position'",
"C07":"'journal creation, deletion or truncation, database truncation or removal' on a node without write authority; the import endpoint on a replica; 'a transaction whose commit step begins after the node has lost write authority is refused rather than published' in rollback-journal mode",
"C08":"'a non-candidate node never tries to acquire a free lease', 'cluster ID differs from its own stored ID', 'renewals have failed for a full TTL', manual demotion",
"C09":"'temporary files are never mistaken for transactions', 'a received snapshot replaces the whole chain', 'retention never removes the newest file', 'never removes a file the service has not yet confirmed'",
"C10":"a snapshot sent to a replica or to the backup service (not the export endpoint), in rollback-journal mode or across a checkpoint / WAL restart",
"C11":"'a checkpoint lock is never granted to one connection while another connection holds the WAL write lock', 'WAL writes made without holding the write lock are refused', the locks LiteFS takes for importing or rolling back a journal",
"C12":"'a failed attempt changes nothing', downgrade from exclusive to shared, can-lock queries, 'the blocking variants return as soon as the lock becomes available or their context ends'",
"C13":"'when the lock is released or expires the primary can write again and the former holder can no longer commit', 'the replica starts writing from exactly the primary's position', 'the primary commits no local transaction and runs no checkpoint on that database' while a halt is held, expiry",
"C14":"'when the service is ahead of, inconsistent with, or cannot be contiguously extended from the primary's log, the primary adopts the service's snapshot instead of overwriting it', failed or partial uploads, drops between syncs",
"C15":"'a database later created under the same name continues the same transaction ID sequence', 'removes the database, journal, WAL and shared-memory files', replicas that restart or join after the drop",
"C16":"'except the file change counter and schema cookie, which are reset', 'export returns exactly the current committed image' with a pending local WAL, 'without preventing a later restart', import into an absent or empty database",
"C17":"WAL scanning: 'the frames LiteFS treats as valid are exactly the longest prefix whose salts and cumulative checksums match the header', 'only frames up to the last commit frame affect the database', torn final journal record, zeroed headers",
"C18":"position maps, the stream frame types other than the chunked body (names and lease IDs of any length, hostile length prefixes), 'memory use out of proportion to the bytes actually received'",
"C19":"'a write request arriving at a replica, unless its path matches a configured passthrough pattern, is never forwarded to the local application', 'an error when no primary is known', 'the cookie issued after a write on the primary names a position at or after that write', malformed cookies",
"C20":"endpoints other than /tx: /handoff, /promote, /halt, /import, /export, /events with missing / unknown / malformed parameters, own and foreign node IDs, on a replica or a node with no primary",
}
for l in open('/verif/properties.jsonl'):
    p=json.loads(l)
    if p['id']==pid: break
print(f'''You are helping evaluate a verification effort for the Go project superfly/litefs (a FUSE filesystem that replicates SQLite databases). Your job: introduce ONE realistic regression into the code that breaks the property below, and demonstrate it.

Work ONLY inside the git worktree /tmp/seed3/{pid} (a checkout of the repository). Do not touch /repo or /verif and do not read anything under /verif. Do NOT use `git stash`, `git checkout`, `git worktree` or `git reset` (the stash and refs are shared with other worktrees): to compare with and without your change, keep a copy of the original file(s) next to the worktree (e.g. /tmp/seed3/{pid}.orig/) and copy files back and forth.

PROPERTY {p['id']}: {p['title']}
Statement: {p['statement']}
Quantified over: {p['quantifier']['text']}
Relevant files: {', '.join(p['anchors']['files'])}

Aim at this part of the property in particular (an earlier exercise already covered other parts): {focus[pid]}.

Requirements for the change:
1. It must be a change to non-test source files of the repository (not tests), small (a few lines), of the kind a plausible refactoring or "optimisation" or off-by-one or forgotten case could introduce.
2. The repository must still compile and the existing tests that pass today must still pass. Environment: run `export GOFLAGS=-mod=mod GOPROXY=off GOSUMDB=off GOTOOLCHAIN=local` first (no network). Check with: `go build ./... && go test -vet=off -count=1 . ./http/... ./internal/... ./lfsc/... ./cmd/...` and `go test -vet=off -count=1 -run 'TestFileTypeFilename|TestParseFilename|TestToErrno' ./fuse/` (the other fuse tests need a kernel FUSE mount and fail in this sandbox regardless; ignore them). Some tests are flaky under load; re-run a failing test alone with and without your change before concluding it is caused by your change.
3. It must need something specific to manifest - a particular interleaving, a crash or fault at a particular point, a multi-step sequence of operations, an unusual input or size (e.g. a boundary value), or two cooperating sites that each look fine alone. NOT something that ordinary use would expose at once.
4. Demonstrate it: add a NEW test file (name it zz_seed_demo_test.go, in the package directory it tests; test function names start with TestSeed) that passes on the original code and fails with your change, by driving the real code (no mocks of the code under test). It must run without FUSE and without network. Run it both ways and record the outputs.
5. When done, leave the worktree with your source change applied (uncommitted) plus the demo test file, and write /tmp/seed3/{pid}/SEED_REPORT.md with: the diff summary, which part of the property it breaks, what exactly is needed for it to manifest, and the exact commands you ran with their results.

Keep the change minimal and do not modify any existing test. Produce exactly one seeded change. Finish by printing the path of the report.''')
