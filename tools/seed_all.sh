#!/bin/bash
# re-runs every stored seed against its property's current check; prints name and whether it is caught
cd /verif
for d in seeded/*/; do
  n=$(basename $d)
  r=$(tools/seed_recheck.sh $n 2>&1 | tail -1)
  echo "$r"
done
