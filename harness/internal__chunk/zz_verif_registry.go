package chunk

var verifHarnesses = map[string]func(){
	"VerifC18ChunkRoundTrip": VerifC18ChunkRoundTrip,
	"VerifC18ChunkTruncated": VerifC18ChunkTruncated,
}
