package chunk

import (
	"io"

	rt "github.com/superfly/litefs/internal/verifrt"
)

var verifChunkLens = []int{0, 1, 2, 65534, 65535, 65536, 65537, 131070, 131071}

// VerifC18ChunkRoundTrip: what a chunk.Writer writes, a chunk.Reader returns
// byte for byte, around the 65535-byte chunk limit, for several write
// chunkings and read buffer sizes.
func VerifC18ChunkRoundTrip() {
	nl := 7
	if rt.Tier() > 0 {
		nl = len(verifChunkLens)
	}
	n := verifChunkLens[rt.Choose("payload.len", nl)]
	payload := rt.Bytes("p", n)
	var wire rt.Buf
	w := NewWriter(&wire)
	// write chunking: whole, or two writes split at 1 / n-1 / 65535
	switch rt.Choose("write.split", 4) {
	case 0:
		nn, err := w.Write(payload)
		rt.Check(err == nil && nn == n, "Write reports all bytes written")
	default:
		cut := []int{1, n - 1, 65535}[rt.Choose("write.cut", 3)]
		if cut <= 0 || cut >= n {
			rt.Assume(false)
		}
		n1, err1 := w.Write(payload[:cut])
		n2, err2 := w.Write(payload[cut:])
		rt.Check(err1 == nil && err2 == nil && n1+n2 == n, "split Write reports all bytes written")
	}
	rt.Check(w.Close() == nil, "Close writes the EOF chunk")
	rt.Check(w.Close() == nil, "double Close is a no-op")
	enc := wire.B

	bufSize := []int{1, 7, 65535, 65536}[rt.Choose("read.buf", 4)]
	if bufSize == 1 && n > 70000 {
		rt.Assume(false) // byte-wise reading of the largest payloads adds nothing
	}
	src := &rt.SplitReader{Data: enc, Mode: rt.Choose("split.mode", 2) * 2}
	if src.Mode == 2 {
		src.Cut = []int{1, 2, 3, len(enc) - 2, len(enc) - 1}[rt.Choose("wire.cut", 5)]
		if src.Cut <= 0 || src.Cut >= len(enc) {
			rt.Assume(false)
		}
	}
	r := NewReader(src)
	var out []byte
	buf := make([]byte, bufSize)
	for {
		k, err := r.Read(buf)
		out = append(out, buf[:k]...)
		if err == io.EOF {
			break
		}
		rt.Check(err == nil, "no error before the end of the stream")
		rt.Check(len(out) <= n, "reader never returns more than was written")
	}
	rt.Check(len(out) == n, "same length read back")
	same := true
	for i := range out {
		if out[i] != payload[i] {
			same = false
		}
	}
	rt.Check(same, "identical bytes read back")
	rt.Check(src.Pos == len(enc), "reader consumed the whole stream including the EOF chunk")
	k, err := r.Read(buf)
	rt.Check(k == 0 && err == io.EOF, "EOF is sticky")
	rt.Check(false, "TWIN:chunk round trip never succeeds")
	rt.Reach("c18.chunk.roundtrip")
}

// VerifC18ChunkTruncated: every proper prefix of a chunked stream ends in an
// error other than a clean io.EOF, and never returns bytes not written.
func VerifC18ChunkTruncated() {
	n := []int{1, 2, 5}[rt.Choose("payload.len", 3)]
	payload := rt.Bytes("p", n)
	var wire rt.Buf
	w := NewWriter(&wire)
	w.Write(payload)
	w.Close()
	enc := wire.B
	cut := rt.Choose("prefix.len", len(enc))
	r := NewReader(&rt.SplitReader{Data: enc[:cut], Mode: rt.Choose("split.mode", 2)})
	var out []byte
	buf := make([]byte, 4)
	var err error
	for i := 0; i < 8; i++ {
		var k int
		k, err = r.Read(buf)
		out = append(out, buf[:k]...)
		if err != nil {
			break
		}
	}
	rt.Check(err != nil, "truncated stream ends in an error")
	rt.Check(err != io.EOF, "truncated stream is never a clean EOF")
	rt.Check(len(out) <= n, "no more bytes than written")
	for i := range out {
		rt.Check(out[i] == payload[i], "bytes returned before the error are the ones written")
	}
	rt.Reach("c18.chunk.truncated")
}
