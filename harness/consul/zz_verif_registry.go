package consul

var verifHarnesses = map[string]func(){
	"VerifC08ConsulLease":   VerifC08ConsulLease,
	"VerifC08ConsulAcquire": VerifC08ConsulAcquire,
}
