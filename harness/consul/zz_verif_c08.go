package consul

import (
	"context"
	"errors"
	"time"

	"github.com/hashicorp/consul/api"
	"github.com/superfly/litefs"
	rt "github.com/superfly/litefs/internal/verifrt"
)

type verifConsul struct {
	renewOutcome   int // 0 ok, 1 session gone, 2 error
	createOutcome  int // 0 ok, 1 error
	acquireOutcome int // 0 acquired, 1 held by another session, 2 error
	creates        int
	destroys       []string
	releases       int
	acquiredWith   []string
	puts           int
	deletes        []string
	releasedWith   []string
	clusterValue   []byte
	clusterErr     error
}

func (v *verifConsul) install() {
	rt.Stub("(*github.com/hashicorp/consul/api.Session).Renew", func(s *api.Session, id string, q *api.WriteOptions) (*api.SessionEntry, *api.WriteMeta, error) {
		rt.ClockAdvance(rt.I64("renew.latency") & 0x3fffffff) // the round trip takes up to ~1 s
		switch v.renewOutcome {
		case 0:
			return &api.SessionEntry{ID: id}, nil, nil
		case 1:
			return nil, nil, nil
		}
		return nil, nil, errors.New("Unexpected response code: 500")
	})
	rt.Stub("(*github.com/hashicorp/consul/api.Session).CreateNoChecks", func(s *api.Session, se *api.SessionEntry, q *api.WriteOptions) (string, *api.WriteMeta, error) {
		v.creates++
		if v.createOutcome == 1 {
			return "", nil, errors.New("consul unreachable")
		}
		return "session-1", nil, nil
	})
	rt.Stub("(*github.com/hashicorp/consul/api.Session).Destroy", func(s *api.Session, id string, q *api.WriteOptions) (*api.WriteMeta, error) {
		v.destroys = append(v.destroys, id)
		return nil, nil
	})
	rt.Stub("(*github.com/hashicorp/consul/api.KV).Acquire", func(k *api.KV, p *api.KVPair, q *api.WriteOptions) (bool, *api.WriteMeta, error) {
		v.acquiredWith = append(v.acquiredWith, p.Session)
		switch v.acquireOutcome {
		case 0:
			return true, nil, nil
		case 1:
			return false, nil, nil
		}
		return false, nil, errors.New("consul unreachable")
	})
	rt.Stub("(*github.com/hashicorp/consul/api.KV).Release", func(k *api.KV, p *api.KVPair, q *api.WriteOptions) (bool, *api.WriteMeta, error) {
		v.releases++
		v.releasedWith = append(v.releasedWith, p.Session)
		return true, nil, nil
	})
	rt.Stub("(*github.com/hashicorp/consul/api.KV).Delete", func(k *api.KV, key string, q *api.WriteOptions) (*api.WriteMeta, error) {
		v.deletes = append(v.deletes, key)
		return nil, nil
	})
	rt.Stub("(*github.com/hashicorp/consul/api.KV).Get", func(k *api.KV, key string, q *api.QueryOptions) (*api.KVPair, *api.QueryMeta, error) {
		if v.clusterErr != nil {
			return nil, nil, v.clusterErr
		}
		if v.clusterValue == nil {
			return nil, nil, nil
		}
		return &api.KVPair{Key: key, Value: v.clusterValue}, nil, nil
	})
	rt.Stub("(*github.com/hashicorp/consul/api.KV).Put", func(k *api.KV, p *api.KVPair, q *api.WriteOptions) (*api.WriteMeta, error) {
		v.puts++
		v.clusterValue = p.Value
		return nil, nil
	})
}

func verifLeaser() *Leaser {
	l := NewLeaser("http://consul:8500", "litefs/primary", "host", "http://host:20202")
	l.client = &api.Client{}
	l.TTL = 10 * time.Second
	return l
}

// VerifC08ConsulLease: the Consul lease against every reply of the (stubbed)
// Consul client. The renewal loop of the store measures "renewals have failed
// for a full TTL" from RenewedAt(): it must be the time of the last successful
// renewal and nothing else.
func VerifC08ConsulLease() {
	ctx := context.Background()
	v := &verifConsul{renewOutcome: rt.Choose("renew.outcome", 3)}
	v.install()
	l := verifLeaser()
	t0 := time.Now()
	lease := newLease(l, "session-1", t0)
	rt.ClockAdvance(rt.I64("since.last.renewal") & 0xffffffffff)
	before := time.Now()
	err := lease.Renew(ctx)
	after := time.Now()
	switch v.renewOutcome {
	case 0:
		rt.Check(err == nil, "successful renewal")
		rt.Check(lease.RenewedAt().Sub(before) >= 0 && after.Sub(lease.RenewedAt()) >= 0, "a successful renewal records the time of the renewal")
		rt.Reach("c08.consul.renewed")
	case 1:
		rt.Check(err == litefs.ErrLeaseExpired, "a renewal that finds the session gone reports ErrLeaseExpired")
		rt.Check(lease.RenewedAt() == t0, "a failed renewal does not move the time the TTL is measured from")
		rt.Reach("c08.consul.gone")
	case 2:
		rt.Check(err != nil && err != litefs.ErrLeaseExpired, "a renewal error is reported as such")
		rt.Check(lease.RenewedAt() == t0, "a failed renewal does not move the time the TTL is measured from")
		rt.Reach("c08.consul.error")
	}
	rt.Check(lease.TTL() == l.TTL && lease.ID() == "session-1", "lease reports its TTL and session")
	// destroying the lease releases the key and destroys exactly this session
	rt.Check(lease.Close() == nil && v.releases == 1 && len(v.destroys) == 1 && v.destroys[0] == "session-1", "Close releases the key and destroys the session")
	rt.Check(len(v.deletes) == 0 && v.releasedWith[0] == "session-1", "the key is given up only under the lease's own session (a release), never deleted outright: a loser's clean-up must not remove the holder's key")
}

// VerifC08ConsulAcquire: Acquire / AcquireExisting / cluster ID against every reply.
func VerifC08ConsulAcquire() {
	ctx := context.Background()
	v := &verifConsul{createOutcome: rt.Choose("create.outcome", 2), acquireOutcome: rt.Choose("acquire.outcome", 3), renewOutcome: rt.Choose("renew.outcome", 3)}
	v.install()
	l := verifLeaser()
	switch rt.Choose("operation", 3) {
	case 0:
		lease, err := l.Acquire(ctx)
		switch {
		case v.createOutcome == 1:
			rt.Check(err != nil && lease == nil && len(v.acquiredWith) == 0, "no session: nothing acquired")
		case v.acquireOutcome == 0:
			rt.Check(err == nil && lease != nil && lease.ID() == "session-1", "key acquired: a lease on the new session")
			rt.Check(len(v.destroys) == 0, "an acquired lease's session is kept")
			rt.Reach("c08.consul.acquired")
		case v.acquireOutcome == 1:
			rt.Check(err == litefs.ErrPrimaryExists && lease == nil, "key held by another session: ErrPrimaryExists, no lease")
			rt.Check(len(v.destroys) == 1 && v.destroys[0] == "session-1", "the unused session is destroyed")
			rt.Check(len(v.deletes) == 0, "losing the race for the key never deletes the key the winner holds")
			for _, sid := range v.releasedWith {
				rt.Check(sid == "session-1", "a release names the loser's own session")
			}
			rt.Reach("c08.consul.held")
		default:
			rt.Check(err != nil && err != litefs.ErrPrimaryExists && lease == nil, "error: no lease")
			rt.Check(len(v.destroys) == 1, "the unused session is destroyed")
		}
	case 1:
		lease, err := l.AcquireExisting(ctx, "handed-off")
		if v.renewOutcome != 0 {
			rt.Check(err != nil && lease == nil && len(v.acquiredWith) == 0, "a handed-off session that cannot be renewed gives no lease and touches no key")
		} else if v.acquireOutcome == 0 {
			rt.Check(err == nil && lease != nil && lease.ID() == "handed-off" && v.acquiredWith[0] == "handed-off", "handoff: the lease continues the handed-off session")
			rt.Reach("c08.consul.existing")
		} else {
			rt.Check(err != nil && lease == nil, "handoff refused: no lease")
		}
		rt.Check(v.creates == 0, "a handoff never creates a new session")
	case 2:
		switch rt.Choose("cluster.state", 3) {
		case 1:
			v.clusterValue = []byte("LFSC0000000000000001")
		case 2:
			v.clusterErr = errors.New("consul unreachable")
		}
		id, err := l.ClusterID(ctx)
		serr := l.SetClusterID(ctx, "LFSC0000000000000002")
		switch {
		case v.clusterErr != nil:
			rt.Check(err != nil && serr != nil && v.puts == 0, "unreachable: no cluster id, nothing written")
		case id != "":
			rt.Check(err == nil && id == "LFSC0000000000000001", "stored cluster id is returned")
			rt.Check(serr != nil && v.puts == 0, "a cluster id, once set, is never overwritten")
			rt.Reach("c08.consul.cluster.set")
		default:
			rt.Check(err == nil && serr == nil && v.puts == 1, "unset cluster id can be set once")
			rt.Reach("c08.consul.cluster.unset")
		}
	}
}
