package litefs

import (
	"testing"

	rt "github.com/superfly/litefs/internal/verifrt"
)

// TestVerifNative replays solver models against the natively compiled code.
func TestVerifNative(t *testing.T) { rt.RunNativeDir(verifHarnesses) }
