package litefs

import (
	"bytes"
	"context"
	"encoding/binary"
	"io"
	"os"
	"path/filepath"
	"time"

	rt "github.com/superfly/litefs/internal/verifrt"
	"github.com/superfly/ltx"
)

// verifP is the page size of file-level harnesses (the smallest valid one).
const verifP = 512

// verifLease is a lease that is simply held.
type verifLease struct{ closed int }

func (l *verifLease) ID() string                                       { return "verif" }
func (l *verifLease) RenewedAt() time.Time                             { return time.Time{} }
func (l *verifLease) TTL() time.Duration                               { return time.Hour }
func (l *verifLease) Renew(ctx context.Context) error                  { return nil }
func (l *verifLease) Handoff(ctx context.Context, nodeID uint64) error { return nil }
func (l *verifLease) HandoffCh() <-chan uint64                         { return nil }
func (l *verifLease) Close() error                                     { l.closed++; return nil }

// verifInvalidator records page-cache invalidations.
type verifInvalidator struct {
	calls []verifInval
}

type verifInval struct {
	kind      string
	off, size int64
	name      string
}

func (i *verifInvalidator) InvalidateDB(db *DB) error {
	i.calls = append(i.calls, verifInval{kind: "db"})
	return nil
}
func (i *verifInvalidator) InvalidateDBRange(db *DB, offset, size int64) error {
	i.calls = append(i.calls, verifInval{kind: "range", off: offset, size: size})
	return nil
}
func (i *verifInvalidator) InvalidateSHM(db *DB) error {
	i.calls = append(i.calls, verifInval{kind: "shm"})
	return nil
}
func (i *verifInvalidator) InvalidatePos(db *DB) error {
	i.calls = append(i.calls, verifInval{kind: "pos"})
	return nil
}
func (i *verifInvalidator) InvalidateEntry(name string) error {
	i.calls = append(i.calls, verifInval{kind: "entry", name: name})
	return nil
}
func (i *verifInvalidator) InvalidateLag() error { return nil }

// verifWorld is a store with one database, driven without FUSE.
type verifWorld struct {
	dir   string
	store *Store
	db    *DB
	exits []int
	inv   *verifInvalidator
	lease *verifLease
	sub   *ChangeSetSubscriber
	img0  [][]byte
}

// verifNewStore builds a store on a fresh directory; primary decides whether it holds a lease.
func verifNewStore(primary bool) *verifWorld {
	w := &verifWorld{dir: rt.TempDir(), inv: &verifInvalidator{}}
	s := NewStore(w.dir, true)
	s.Exit = func(code int) { w.exits = append(w.exits, code) }
	s.Invalidator = w.inv
	if primary {
		w.lease = &verifLease{}
		s.lease = w.lease
		s.primaryCh = make(chan struct{}) // what setLease does on becoming primary
	}
	w.store = s
	w.sub = s.SubscribeChangeSet(7)
	return w
}

// verifHeaderPage fills the first 100 bytes of page 1 with a SQLite header for
// pageN pages; wal selects the journal-mode bytes. Other bytes are untouched.
func verifHeaderPage(page []byte, pageN uint32, wal bool) {
	copy(page, SQLITE_DATABASE_HEADER_STRING)
	binary.BigEndian.PutUint16(page[16:], verifP)
	v := byte(1)
	if wal {
		v = 2
	}
	page[18], page[19] = v, v
	binary.BigEndian.PutUint32(page[28:], pageN)
}

// verifImage returns n symbolic pages forming a database image in the given mode.
func verifImage(tag string, n int, wal bool) [][]byte {
	img := make([][]byte, n)
	for i := range img {
		img[i] = rt.Bytes(tag, verifP)
	}
	if n > 0 {
		verifHeaderPage(img[0], uint32(n), wal)
	}
	return img
}

func verifJoin(img [][]byte) []byte {
	var b []byte
	for _, p := range img {
		b = append(b, p...)
	}
	return b
}

// verifSpecChecksum is the from-scratch checksum of an image (lock page is far away at P=512).
func verifSpecChecksum(img [][]byte) ltx.Checksum {
	var x ltx.Checksum
	for i, p := range img {
		x ^= ltx.ChecksumPage(uint32(i+1), p)
	}
	return ltx.ChecksumFlag | x
}

// verifOpenDB installs an image as database "db" and opens it through the real
// DB.Open (which rebuilds the checksum cache from disk). The position is then set
// to (txid, checksum of the image).
func (w *verifWorld) verifOpenDB(img [][]byte, txid ltx.TXID) {
	path := w.store.DBPath("db")
	must(os.MkdirAll(path, 0o777))
	if img != nil {
		must(os.WriteFile(filepath.Join(path, "database"), verifJoin(img), 0o666))
	}
	db := NewDB(w.store, "db", path)
	err := db.Open()
	rt.Check(err == nil, "harness: DB.Open on a clean directory succeeds")
	w.store.dbs["db"] = db
	w.db = db
	if txid > 0 {
		chk, err := db.checksum(db.PageN(), nil)
		rt.Check(err == nil, "harness: checksum of the installed image")
		db.pos.Store(ltx.Pos{TXID: txid, PostApplyChecksum: chk})
	}
}

func must(err error) {
	if err != nil {
		panic(err)
	}
}

// verifReadImage reads the database file as pages.
func (w *verifWorld) verifReadImage() [][]byte {
	b, err := os.ReadFile(w.db.DatabasePath())
	if os.IsNotExist(err) {
		return nil
	}
	must(err)
	rt.Check(len(b)%verifP == 0, "database file is a whole number of pages")
	img := make([][]byte, len(b)/verifP)
	for i := range img {
		img[i] = b[i*verifP : (i+1)*verifP]
	}
	return img
}

type verifLTX struct {
	hdr     ltx.Header
	trailer ltx.Trailer
	pgnos   []uint32
	pages   [][]byte
}

// verifDecodeLTX reads an LTX file with the real decoder (including its integrity check).
func verifDecodeLTX(path string) (*verifLTX, error) {
	f, err := os.Open(path)
	if err != nil {
		return nil, err
	}
	defer f.Close()
	dec := ltx.NewDecoder(f)
	if err := dec.DecodeHeader(); err != nil {
		return nil, err
	}
	out := &verifLTX{hdr: dec.Header()}
	for {
		var ph ltx.PageHeader
		buf := make([]byte, out.hdr.PageSize)
		if err := dec.DecodePage(&ph, buf); err == io.EOF {
			break
		} else if err != nil {
			return nil, err
		}
		out.pgnos = append(out.pgnos, ph.Pgno)
		out.pages = append(out.pages, buf)
	}
	if err := dec.Close(); err != nil {
		return nil, err
	}
	out.trailer = dec.Trailer()
	return out, nil
}

func verifLTXNames(db *DB) []string {
	ents, err := os.ReadDir(db.LTXDir())
	if err != nil {
		return nil
	}
	var names []string
	for _, e := range ents {
		names = append(names, e.Name())
	}
	return names
}

func verifSamePage(a, b []byte) bool { return bytes.Equal(a, b) }

// verifJournalHeader builds one sector-sized (512) rollback-journal header.
func verifJournalHeader(nRec int32, nonce, dbSize uint32) []byte {
	h := make([]byte, 512)
	copy(h, SQLITE_JOURNAL_HEADER_STRING)
	binary.BigEndian.PutUint32(h[8:], uint32(nRec))
	binary.BigEndian.PutUint32(h[12:], nonce)
	binary.BigEndian.PutUint32(h[16:], dbSize)
	binary.BigEndian.PutUint32(h[20:], 512)
	binary.BigEndian.PutUint32(h[24:], verifP)
	return h
}

// verifJournalSum is SQLite's journal record checksum (from the file-format text).
func verifJournalSum(data []byte, nonce uint32) uint32 {
	sum := nonce
	for i := len(data) - 200; i > 0; i -= 200 {
		sum += uint32(data[i])
	}
	return sum
}

// verifJournalRecord builds one journal record for page pgno with its original content.
func verifJournalRecord(pgno uint32, orig []byte, nonce uint32) []byte {
	r := make([]byte, 4, 4+len(orig)+4)
	binary.BigEndian.PutUint32(r, pgno)
	r = append(r, orig...)
	var c [4]byte
	binary.BigEndian.PutUint32(c[:], verifJournalSum(orig, nonce))
	return append(r, c[:]...)
}

// VerifReplicaWorld is used by harnesses in other packages: a replica store
// with database "db" of n0 pages at position (41, checksum).
func VerifReplicaWorld(n0 int, wal bool) (*Store, *DB, func() []int) {
	w, _ := verifC01Replica(n0, wal)
	w.store.id = 0xB0B // concrete: request headers carry the formatted id
	return w.store, w.db, func() []int { return w.exits }
}

// VerifPrimaryWorld: a primary store with database "db".
func VerifPrimaryWorld(n0 int, wal bool) (*Store, *DB, func() []int) {
	w := verifNewStore(true)
	w.store.id = 0xB0B
	w.verifOpenDB(verifImage("img0", n0, wal), 41)
	return w.store, w.db, func() []int { return w.exits }
}

// VerifTreeDigest / VerifSameTree expose the directory comparison helpers.
func VerifTreeDigest(dir string) map[string][]byte { return verifTreeDigest(dir) }
func VerifSameTree(a, b map[string][]byte) bool    { return verifSameTree(a, b) }

// VerifPrimaryChain: a primary with database "db" (1 page, position 41) on
// which k rollback-journal transactions were committed through the real code:
// transaction files 42..41+k exist. Returns the position after each step
// (index 0 = position 41).
func VerifPrimaryChain(k int) (*Store, *DB, []ltx.Pos) {
	w, chain := verifChain(k)
	return w.store, w.db, chain
}

// VerifPrimaryChainFrom: like VerifPrimaryChain, the history starting after TXID base.
func VerifPrimaryChainFrom(k int, base uint64) (*Store, *DB, []ltx.Pos) {
	w, chain := verifChainFrom(k, 1, ltx.TXID(base))
	return w.store, w.db, chain
}

func verifChainWorld(k int) *verifWorld {
	w, _ := verifChain(k)
	return w
}

func verifChain(k int) (*verifWorld, []ltx.Pos) { return verifChainN(k, 1) }

// verifChainN: like verifChain with an n0-page database; the chain's
// transactions rewrite page 1 only.
func verifChainN(k, n0 int) (*verifWorld, []ltx.Pos) { return verifChainFrom(k, n0, 41) }

// verifChainFrom: like verifChainN with the history starting after position base
// (base 0: the log holds every transaction since the first one).
func verifChainFrom(k, n0 int, base ltx.TXID) (*verifWorld, []ltx.Pos) {
	ctx := context.Background()
	w := verifNewStore(true)
	w.img0 = verifImage("img0", n0, false)
	w.verifOpenDB(w.img0, base)
	db := w.db
	chain := []ltx.Pos{db.Pos()}
	for i := 0; i < k; i++ {
		jf, err := db.CreateJournal()
		must(err)
		must(db.WriteJournalAt(ctx, jf, verifJournalHeader(0, 0, uint32(n0)), 0, 1))
		dbf, err := db.OpenDatabase(ctx)
		must(err)
		p := rt.Bytes("chain", verifP)
		verifHeaderPage(p, uint32(n0), false)
		must(db.WriteDatabaseAt(ctx, dbf, p, 0, 1))
		must(db.RemoveJournal(ctx))
		chain = append(chain, db.Pos())
	}
	return w, chain
}

// verifImageBig returns n pages: page 1 and the listed pages have symbolic
// content, the others a concrete per-page pattern (so that images crossing the
// 256-page checksum blocks stay cheap). Page 1 carries a valid header.
func verifImageBig(tag string, n int, wal bool, symbolic ...int) [][]byte {
	img := make([][]byte, n)
	sym := map[int]bool{1: true}
	for _, p := range symbolic {
		sym[p] = true
	}
	for i := range img {
		if sym[i+1] {
			img[i] = rt.Bytes(tag, verifP)
			continue
		}
		pg := make([]byte, verifP)
		for j := range pg {
			pg[j] = byte(i*7 + j)
		}
		img[i] = pg
	}
	if n > 0 {
		verifHeaderPage(img[0], uint32(n), wal)
	}
	return img
}

// VerifStoreState digests everything the HTTP properties call "state": files,
// positions and the lock table of database "db".
type VerifStoreState struct {
	Tree     map[string][]byte
	Pos      ltx.Pos
	Unlocked bool
	HaltID   int64
	DBs      int
	Subs     int // registered change-set subscribers (= replicas the node believes are connected)
}

func VerifSnapshotState(s *Store) VerifStoreState {
	st := VerifStoreState{Tree: verifTreeDigest(s.path), DBs: len(s.dbs), Unlocked: true, Subs: len(s.changeSetSubscribers) + len(s.eventSubscribers)}
	if db := s.dbs["db"]; db != nil {
		st.Pos = db.Pos()
		st.Unlocked = verifAllUnlocked(db)
		if cur := db.haltLockAndGuard.Load().(*haltLockAndGuard); cur != nil {
			st.HaltID = cur.haltLock.ID
		}
	}
	return st
}

func VerifSameState(a, b VerifStoreState) bool {
	return verifSameTree(a.Tree, b.Tree) && a.Pos == b.Pos && a.Unlocked == b.Unlocked && a.HaltID == b.HaltID && a.DBs == b.DBs && a.Subs == b.Subs
}

// VerifSetPrimaryInfo makes a replica know its primary.
func VerifSetPrimaryInfo(s *Store, url string) {
	s.primaryInfo = &PrimaryInfo{Hostname: "primary", AdvertiseURL: url}
}

// VerifEncodeTx builds a one-page transaction file extending pos for database db.
func VerifEncodeTx(db *DB, nodeID uint64, txid ltx.TXID, pre ltx.Checksum) []byte {
	p := rt.Bytes("fwd", verifP)
	verifHeaderPage(p, 1, false)
	hdr := ltx.Header{PageSize: verifP, Commit: 1, MinTXID: txid, MaxTXID: txid, PreApplyChecksum: pre, NodeID: nodeID}
	return verifEncodeLTX(hdr, []uint32{1}, [][]byte{p}, verifSpecChecksum([][]byte{p}))
}

// VerifSetPos stores a position (what the replication stream does when it applies a transaction).
func VerifSetPos(db *DB, txid uint64, chk uint64) {
	db.pos.Store(ltx.Pos{TXID: ltx.TXID(txid), PostApplyChecksum: ltx.Checksum(chk) | ltx.ChecksumFlag})
}

// verifDemote is what the lease monitor does when the lease is lost.
func verifDemote(s *Store) {
	s.mu.Lock()
	s.setLease(nil)
	s.mu.Unlock()
}

// VerifDemote exposes verifDemote.
func VerifDemote(s *Store) { verifDemote(s) }
