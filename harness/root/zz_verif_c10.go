package litefs

import (
	"bytes"
	"context"
	"encoding/binary"
	"io"

	rt "github.com/superfly/litefs/internal/verifrt"
	"github.com/superfly/ltx"
)

// verifC10Env is the environment of a snapshot/export: an application
// connection (owner 1) that follows SQLite's locking protocol and, at every
// point where the snapshot has just changed a lock, may run a write
// transaction or a checkpoint if - and only if - it obtains its locks.
type verifC10Env struct {
	w       *verifWorld
	m       *verifWALModel // WAL mode only
	wal     bool
	budget  int
	busy    bool
	history map[ltx.TXID][][]byte // committed position -> image
	actions int
	point   string // label of the current scheduling point
	acted   string // where and what the environment did

	// window: the snapshot/export has released its temporary WRITE lock (it has sampled position and
	// frame offsets) and does not hold READ0 yet, so nothing stops a checkpointer
	window       bool
	ckptInWindow bool
	hotJournal   bool // a writer died mid-transaction and left a hot journal behind
}

func (e *verifC10Env) image() [][]byte {
	img := e.w.verifReadImage()
	if !e.wal {
		return img
	}
	out := make([][]byte, e.m.pageN)
	for p := uint32(1); p <= e.m.pageN; p++ {
		if d, ok := e.m.overlay[p]; ok {
			out[p-1] = d
		} else if int(p) <= len(img) {
			out[p-1] = img[p-1]
		}
	}
	return out
}

func (e *verifC10Env) record() {
	e.history[e.w.db.Pos().TXID] = e.image()
}

// step is called from the lock-state callbacks.
func (e *verifC10Env) step() {
	if e.busy || e.budget == 0 {
		return
	}
	e.busy = true
	defer func() { e.busy = false }()
	if !rt.Bool("env.acts@" + e.point) {
		return
	}
	e.budget--
	e.actions++
	at := e.point
	ctx := context.Background()
	db := e.w.db
	if !e.wal {
		// rollback-journal writer: SHARED -> RESERVED -> PENDING -> EXCLUSIVE
		ok := db.TryRLocks(ctx, 1, []LockType{LockTypeShared})
		if ok {
			ok, _ = db.TryLocks(ctx, 1, []LockType{LockTypeReserved})
		}
		if ok {
			ok, _ = db.TryLocks(ctx, 1, []LockType{LockTypePending})
		}
		if ok {
			ok, _ = db.TryLocks(ctx, 1, []LockType{LockTypeShared})
		}
		if ok && e.hotJournal {
			ok = false // the next writer would first roll the hot journal back: not modelled here
		}
		if ok {
			jf, err := db.CreateJournal()
			must(err)
			must(db.WriteJournalAt(ctx, jf, verifJournalHeader(0, 1, db.PageN()), 0, 1))
			dbf, err := db.OpenDatabase(ctx)
			must(err)
			p := rt.Bytes("envwrite", verifP)
			verifHeaderPage(p, db.PageN(), false)
			must(db.WriteDatabaseAt(ctx, dbf, p, 0, 1))
			if rt.Choose("journal.writer.dies", 2) == 1 {
				// the connection goes away before finalising the journal: its locks are dropped (what the
				// FUSE flush does), the hot journal and the uncommitted page stay, the position does not move
				e.acted += " [journal writer died mid-transaction at " + at + "]"
				e.hotJournal = true
				db.UnlockDatabase(ctx, 1)
				rt.Reach("c10.env.journal.abandoned")
				return
			}
			must(db.RemoveJournal(ctx))
			e.record()
			rt.Reach("c10.env.journal.commit")
		}
		_ = db.Unlock(ctx, 1, []LockType{LockTypePending, LockTypeReserved, LockTypeShared})
		return
	}
	act := rt.Choose("env.action", 4)
	e.acted += " [" + []string{"wal-write", "checkpoint(+restart)", "checkpoint+restart+write", "checkpoint+restart+rolled-back frames"}[act] + " at " + at + "]"
	if act != 0 && e.window {
		e.ckptInWindow = true
	}
	switch act {
	case 0: // WAL writer
		if ok, _ := db.TryLocks(ctx, 1, []LockType{LockTypeWrite}); ok {
			off := e.m.capOff
			if rt.Choose("env.wal.grows", 2) == 1 {
				// the transaction appends a page: a frame for the new page, then page 1 with the new size
				n := e.m.pageN + 1
				e.m.txSize = n
				c1, c2, _ := e.m.verifWriteFrame(ctx, db, off, n, 0, e.m.c1, e.m.c2)
				e.m.verifWriteFrame(ctx, db, off+verifFrameSize, 1, n, c1, c2)
			} else {
				e.m.txSize = e.m.pageN
				e.m.verifWriteFrame(ctx, db, off, 1, e.m.pageN, e.m.c1, e.m.c2)
			}
			if e.m.verifC03Release(ctx, e.w, "c10.env.wal") {
				e.record()
			}
		}
	case 1, 2, 3: // application checkpoint: backfill under CKPT + READ0, then restart the log if READ1-4 + WRITE are free (2: and write the next transaction into the restarted log)
		ok, _ := db.TryLocks(ctx, 1, []LockType{LockTypeCkpt})
		if ok {
			ok, _ = db.TryLocks(ctx, 1, []LockType{LockTypeRead0})
		}
		if ok {
			dbf, err := db.OpenDatabase(ctx)
			must(err)
			for p, d := range e.m.overlay {
				must(db.WriteDatabaseAt(ctx, dbf, d, int64(p-1)*verifP, 1))
			}
			rt.Reach("c10.env.backfill")
			ok2, _ := db.TryLocks(ctx, 1, []LockType{LockTypeRead1, LockTypeRead2, LockTypeRead3, LockTypeRead4})
			if ok2 {
				if ok3, _ := db.TryLocks(ctx, 1, []LockType{LockTypeWrite}); ok3 {
					// restart: new salts, the log starts over
					e.m.salt1 += 1
					h := e.m.header()
					must(db.WriteWALAt(ctx, e.m.wf, h, 0, 1))
					e.m.capOff = WALHeaderSize
					e.m.c1, e.m.c2 = binary.BigEndian.Uint32(h[24:]), binary.BigEndian.Uint32(h[28:])
					e.m.overlay = map[uint32][]byte{}
					rt.Reach("c10.env.restart")
					if act == 2 {
						e.m.txSize = e.m.pageN
						e.m.verifWriteFrame(ctx, db, e.m.capOff, 1, e.m.pageN, e.m.c1, e.m.c2)
						if e.m.verifC03Release(ctx, e.w, "c10.env.wal2") {
							e.record()
						}
					} else if act == 3 {
						// the writer spills a frame without a commit mark over the old generation's frames and
						// then rolls back: nothing is committed, the position does not move
						e.m.txSize = e.m.pageN
						e.m.verifWriteFrame(ctx, db, e.m.capOff, 1, 0, e.m.c1, e.m.c2)
						pos := db.Pos()
						_ = db.Unlock(ctx, 1, []LockType{LockTypeWrite})
						rt.Check(db.Pos() == pos, "harness: rolled-back frames are not captured")
						rt.Reach("c10.env.rolledback")
					} else {
						_ = db.Unlock(ctx, 1, []LockType{LockTypeWrite})
					}
				}
			}
		}
		_ = db.Unlock(ctx, 1, []LockType{LockTypeRead1, LockTypeRead2, LockTypeRead3, LockTypeRead4, LockTypeRead0, LockTypeCkpt})
	}
}

func verifC10Setup(wal bool) *verifC10Env {
	ctx := context.Background()
	e := &verifC10Env{wal: wal, history: map[ltx.TXID][][]byte{}, budget: 1 + rt.Tier()}
	if wal {
		e.w, e.m = verifC03Setup(1)
		e.m.verifStartWAL(ctx, e.w, true)
		e.m.verifC03Tx(ctx, e.w, 1, true)
		if !e.m.verifC03Release(ctx, e.w, "c10.setup") {
			rt.Fail("harness: setup transaction not captured")
		}
	} else {
		e.w = verifChainWorld(1)
	}
	e.record()
	// interleaving points: every lock-state transition made by the snapshot
	for _, t := range verifAllLocks {
		t := t
		verifMutex(e.w.db, t).OnLockStateChange = func(prev, next RWMutexState) {
			if !e.busy {
				e.point = t.String() + ":" + prev.String() + "->" + next.String()
				if t == LockTypeWrite && prev == RWMutexStateExclusive && next == RWMutexStateUnlocked {
					e.window = true
				}
				if t == LockTypeRead0 && next == RWMutexStateShared {
					e.window = false
				}
			}
			e.step()
		}
	}
	return e
}

// VerifC10Snapshot: a snapshot that completes while an application connection
// commits, checkpoints and restarts the log between any two of its lock
// operations is the image of exactly the position it reports.
func VerifC10Snapshot() {
	ctx := context.Background()
	e := verifC10Setup(rt.Choose("wal.mode", 2) == 1)
	db := e.w.db
	var buf bytes.Buffer
	rt.OnAtomicLoad(func() { // also preempt right after the position / mode are read
		if !e.busy {
			e.point = "atomic-load"
		}
		e.step()
	})
	e.point = "before-start"
	e.step()
	hdr, trl, err := db.WriteSnapshotTo(ctx, &buf)
	rt.OnAtomicLoad(nil)
	if err != nil {
		rt.Reach("c10.snapshot.aborted")
		return
	}
	rt.Reach("c10.snapshot.completed")
	img, ok := e.history[hdr.MaxTXID]
	rt.Check(ok, "a completed snapshot reports a committed position")
	dec := ltx.NewDecoder(bytes.NewReader(buf.Bytes()))
	rt.Check(dec.Verify() == nil, "snapshot stream passes its integrity check")
	x := verifDecodeBytes(buf.Bytes())
	rt.Check(int(x.hdr.Commit) == len(img) && len(x.pages) == len(img), "snapshot has the size of that position")
	// WriteSnapshotTo compares the checksum of what it read with the position's; page checksums are
	// assumed not to collide on different page contents (CRC64 is modelled as an uninterpreted function)
	same := true
	for i := range x.pages {
		if i < len(img) && !verifSamePage(x.pages[i], img[i]) {
			same = false
		}
	}
	rt.Assume(same || verifSpecChecksum(x.pages) != verifSpecChecksum(img))
	rt.Check(same, "snapshot pages are exactly the page images of the position it reports (no mixture, no uncommitted page); environment:"+e.acted)
	rt.Check(trl.PostApplyChecksum == verifSpecChecksum(img), "snapshot checksum is that position's checksum")
	if e.actions > 0 {
		rt.Reach("c10.snapshot.with.env")
	}
}

// VerifC10Export: same for Export, which has no checksum self-check.
func VerifC10Export() {
	ctx := context.Background()
	e := verifC10Setup(rt.Choose("wal.mode", 2) == 1)
	db := e.w.db
	var buf bytes.Buffer
	rt.OnAtomicLoad(func() {
		if !e.busy {
			e.point = "atomic-load"
		}
		e.step()
	})
	e.point = "before-start"
	e.step()
	pos, err := db.Export(ctx, &buf)
	rt.OnAtomicLoad(nil)
	if err != nil {
		rt.Reach("c10.export.aborted")
		return
	}
	rt.Reach("c10.export.completed")
	img, ok := e.history[pos.TXID]
	rt.Check(ok, "a completed export reports a committed position")
	class := ""
	if e.hotJournal {
		class = " {a hot journal left by a dead writer was on disk when Export read the database}"
	} else if e.ckptInWindow {
		class = " {a checkpoint ran after Export released its temporary WRITE lock and before it held READ0}"
	}
	rt.Check(bytes.Equal(buf.Bytes(), verifJoin(img)), "export is exactly the image of the position it reports (no mixture, no uncommitted page); environment:"+e.acted+class)
	if e.actions > 0 {
		rt.Reach("c10.export.with.env")
	}
}

func verifDecodeBytes(b []byte) *verifLTX {
	dec := ltx.NewDecoder(bytes.NewReader(b))
	must(dec.DecodeHeader())
	out := &verifLTX{hdr: dec.Header()}
	for {
		var ph ltx.PageHeader
		buf := make([]byte, out.hdr.PageSize)
		if err := dec.DecodePage(&ph, buf); err == io.EOF {
			break
		} else if err != nil {
			panic(err)
		}
		out.pgnos = append(out.pgnos, ph.Pgno)
		out.pages = append(out.pages, buf)
	}
	must(dec.Close())
	out.trailer = dec.Trailer()
	return out
}
