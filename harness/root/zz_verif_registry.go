package litefs

// verifHarnesses maps harness function names to the functions (native replay).
var verifHarnesses = map[string]func(){
	"VerifC15Drop":        VerifC15Drop,
	"VerifC15ReplicaDrop": VerifC15ReplicaDrop,
	"VerifC07Replica":     VerifC07Replica,
	"VerifC07Demoted":     VerifC07Demoted,
	"VerifC09Listing":     VerifC09Listing,
	"VerifC09Retention":   VerifC09Retention,
	"VerifC12Step":     VerifC12Step,
	"VerifC12Blocking": VerifC12Blocking,
	"VerifC18FrameRoundTrip": VerifC18FrameRoundTrip,
	"VerifC18FrameArbitrary": VerifC18FrameArbitrary,
	"VerifC18FrameAlloc":     VerifC18FrameAlloc,
	"VerifC01Apply":          VerifC01Apply,
	"VerifC01OwnFrame":       VerifC01OwnFrame,
	"VerifC02Journal":        VerifC02Journal,
	"VerifC02AfterModeChange": VerifC02AfterModeChange,
	"VerifC03Tx1":            VerifC03Tx1,
	"VerifC03Two":            VerifC03Two,
	"VerifC03Overwrite":      VerifC03Overwrite,
	"VerifC03Restart":        VerifC03Restart,
	"VerifC03Guards":         VerifC03Guards,
	"VerifC04Cache":          VerifC04Cache,
	"VerifC04CacheLock":      VerifC04CacheLock,
}
