package litefs

// verifHarnesses maps harness function names to the functions (native replay).
var verifHarnesses = map[string]func(){
	"VerifC12Step":     VerifC12Step,
	"VerifC12Blocking": VerifC12Blocking,
}
