package litefs

import (
	"context"
	"encoding/binary"
	"os"

	rt "github.com/superfly/litefs/internal/verifrt"
)

// verifSectorAlign rounds off up to the next multiple of 512.
func verifSectorAlign(off int) int { return (off + 511) / 512 * 512 }

// VerifC17Journal: journals as SQLite's pager leaves them at an interruption
// point; LiteFS' rollback must restore exactly the pre-transaction image.
func VerifC17Journal() {
	ctx := context.Background()
	w := verifNewStore(true)
	n0 := 1 + rt.Choose("n0", 2)
	if rt.Tier() > 0 {
		n0 = 1 + rt.Choose("n0", 3)
	}
	img0 := verifImage("img0", n0, false)
	w.verifOpenDB(img0, 41)
	db := w.db
	pos0 := db.Pos()

	// the interrupted transaction: which pages were journaled (in this order), over one or two segments
	k := rt.Choose("records", n0+1)
	order := make([]int, 0, k)
	used := make([]bool, n0)
	for i := 0; i < k; i++ {
		p := rt.Choose("record.page", n0)
		if used[p] {
			rt.Assume(false)
		}
		used[p] = true
		order = append(order, p+1)
	}
	segs := 1
	if k >= 2 && rt.Choose("two.segments", 2) == 1 {
		segs = 2
	}
	nrecMode := rt.Choose("nrec.mode", 3) // exact / 0 (not yet synced) / -1 (no-sync mode)
	cut := rt.Choose("cut", 5)            // none / torn final record / header zeroed / empty file / cut inside the header

	stray := uint32([]int{0, 0, n0 + 5}[rt.Choose("stray.record", 3)])
	if rt.Choose("stray.present", 2) == 0 {
		stray = 0
	} else if stray == 0 {
		stray = 0xffffffff // stands for "page number zero" below
	}
	// build the journal; the sector size is any value SQLite accepts (a power of two in 32..65536)
	// (sectors smaller than a record are in VerifC17JournalSmallSector: there the sector-aligned offset after a
	// torn record falls inside the record, where page bytes may imitate a header)
	sector := []int{512, 65536, 1024, 4096}[rt.Choose("sector.size", 2+2*rt.Tier())]
	var j []byte
	nonce := rt.U32("nonce")
	perSeg := k
	if segs == 2 {
		perSeg = 1
	}
	durable := k // records fully on disk
	idx := 0
	for s := 0; s < segs; s++ {
		cnt := perSeg
		if s == 1 {
			cnt = k - perSeg
		}
		if pad := (sector - len(j)%sector) % sector; pad > 0 {
			j = append(j, make([]byte, pad)...)
		}
		nrec := int32(cnt)
		if s == segs-1 {
			switch nrecMode {
			case 1:
				nrec = 0
			case 2:
				nrec = -1
				if segs == 2 {
					rt.Assume(false) // no-sync journals have a single segment
				}
			}
		}
		hdr := verifJournalHeader(nrec, nonce, uint32(n0))
		binary.BigEndian.PutUint32(hdr[20:], uint32(sector))
		if sector < len(hdr) {
			hdr = hdr[:sector]
		} else {
			hdr = append(hdr, make([]byte, sector-len(hdr))...)
		}
		if s == 0 && stray != 0 && nrec > 0 {
			binary.BigEndian.PutUint32(hdr[8:], uint32(nrec+1))
		}
		j = append(j, hdr...)
		if s == 0 && stray != 0 {
			// a record whose page number is not a page of the original database (zero, or beyond its size);
			// SQLite skips such a record and carries on with the next one
			pg := stray
			if pg == 0xffffffff {
				pg = 0
			}
			j = append(j, verifJournalRecord(pg, rt.Bytes("stray.data", verifP), nonce)...)
		}
		for i := 0; i < cnt; i++ {
			j = append(j, verifJournalRecord(uint32(order[idx]), img0[order[idx]-1], nonce)...)
			idx++
		}
	}
	modifiedAllowed := true
	switch cut {
	case 1: // torn final record
		if k == 0 {
			rt.Assume(false)
		}
		tear := 1 + rt.Choose("tear.at", 3)*259 // 1, 260, 519 bytes of the final record survive
		j = j[:len(j)-520+tear]
		durable = k - 1
		if nrecMode == 0 {
			rt.Assume(false) // a synced record count implies the records are on disk
		}
	case 2: // PERSIST-style finalisation: the transaction committed
		for i := 0; i < 28; i++ {
			j[i] = 0
		}
	case 3:
		j = j[:0]
		modifiedAllowed = false
	case 4:
		j = j[:1+rt.Choose("header.cut", 2)*26]
		modifiedAllowed = false
	}

	// the database as the interrupted transaction left it: only pages whose journal
	// record is durable may have been overwritten; the file may have grown
	cur := make([][]byte, n0)
	copy(cur, img0)
	for i := 0; i < durable && modifiedAllowed; i++ {
		if rt.Choose("page.modified", 2) == 1 {
			cur[order[i]-1] = rt.Bytes("mod", verifP)
		}
	}
	if modifiedAllowed && durable > 0 && rt.Choose("grown", 2) == 1 {
		cur = append(cur, rt.Bytes("grown", verifP))
	}
	must(os.WriteFile(db.DatabasePath(), verifJoin(cur), 0o666))
	must(os.WriteFile(db.JournalPath(), j, 0o666))

	err := db.Recover(ctx)
	rt.Check(err == nil, "rollback of a pager-produced journal succeeds")
	rt.Check(len(w.exits) == 0, "no fatal exit")
	rt.Check(verifGone(db.JournalPath()), "no hot journal is left for SQLite to replay differently")
	want := img0
	if cut == 2 {
		want = cur // finalised journal: the transaction had committed, nothing to roll back
	}
	verifC01CheckImage(w, want, "rollback restores exactly the pre-transaction bytes and size")
	if cut != 2 {
		rt.Check(db.PageN() == uint32(n0), "page count restored")
		chk, cerr := db.checksum(db.PageN(), nil)
		rt.Check(cerr == nil && chk == pos0.PostApplyChecksum, "C04: checksum cache matches the restored image (equals the position's checksum)")
	}
	rt.Check(db.Pos() == pos0, "rollback does not move the position")
	rt.Reach("c17.journal.rolledback")
}

// VerifC17JournalSegments: multi-segment journals (after a cache spill) whose
// first segment ends before, exactly on, or after a sector boundary.
func VerifC17JournalSegments() {
	ctx := context.Background()
	w := verifNewStore(true)
	n0 := 70
	img0 := verifImageBig("img0", n0, false, 66)
	w.verifOpenDB(img0, 41)
	db := w.db
	pos0 := db.Pos()
	first := []int{64, 63, 65, 1}[rt.Choose("first.segment.records", 4)] // 64 x 520 bytes is a whole number of sectors
	second := 1 + rt.Choose("second.segment.records", 2)
	nonce := rt.U32("nonce")
	var j []byte
	j = append(j, verifJournalHeader(int32(first), nonce, uint32(n0))...)
	for p := 1; p <= first; p++ {
		j = append(j, verifJournalRecord(uint32(p), img0[p-1], nonce)...)
	}
	for len(j)%512 != 0 {
		j = append(j, 0)
	}
	nrec2 := int32(second)
	if rt.Choose("second.nrec.zero", 2) == 1 {
		nrec2 = 0
	}
	j = append(j, verifJournalHeader(nrec2, nonce, uint32(n0))...)
	cur := make([][]byte, n0)
	copy(cur, img0)
	for i := 0; i < second; i++ {
		p := first + 1 + i
		j = append(j, verifJournalRecord(uint32(p), img0[p-1], nonce)...)
		cur[p-1] = rt.Bytes("mod", verifP) // pages journaled in the second segment were overwritten
	}
	cur[0] = rt.Bytes("mod1", verifP)
	must(os.WriteFile(db.DatabasePath(), verifJoin(cur), 0o666))
	must(os.WriteFile(db.JournalPath(), j, 0o666))
	rt.Check(db.Recover(ctx) == nil, "rollback succeeds")
	rt.Check(verifGone(db.JournalPath()), "journal removed")
	verifC01CheckImage(w, img0, "multi-segment rollback restores every journaled page")
	chk, cerr := db.checksum(db.PageN(), nil)
	rt.Check(cerr == nil && chk == pos0.PostApplyChecksum, "C04: checksum cache matches the restored image")
	rt.Reach("c17.journal.segments")
}

// VerifC17JournalHostile: arbitrary journal content must not cause a panic, a
// hang, or a write outside the database's pages.
func VerifC17JournalHostile() {
	ctx := context.Background()
	w := verifNewStore(true)
	n0 := 2
	img0 := verifImage("img0", n0, false)
	w.verifOpenDB(img0, 41)
	db := w.db
	full := rt.Tier() > 0
	pick := func(tag string, quick, thorough []int) int {
		if full {
			return thorough[rt.Choose(tag, len(thorough))]
		}
		return quick[rt.Choose(tag, len(quick))]
	}
	h := make([]byte, 28)
	for i := range h {
		h[i] = 0xaa // not the magic (the first segment does not require it)
	}
	if rt.Choose("magic.valid", 2) == 1 {
		copy(h, SQLITE_JOURNAL_HEADER_STRING)
	}
	binary.BigEndian.PutUint32(h[8:], uint32(int32(pick("nrec", []int{1, 0, 1000}, []int{1, 2, 0, -1, 1000}))))
	binary.BigEndian.PutUint32(h[12:], rt.U32("nonce"))
	dbSize := uint32(pick("dbsize", []int{2, 1, 7}, []int{2, 1, 0, 7}))
	binary.BigEndian.PutUint32(h[16:], dbSize)
	sector := pick("sector", []int{512, 0, 8}, []int{512, 0, 8, 28, 1024, 48})
	binary.BigEndian.PutUint32(h[20:], uint32(sector))
	binary.BigEndian.PutUint32(h[24:], uint32(pick("pagesize", []int{verifP, 0}, []int{verifP, 0, 1024})))
	nonce := binary.BigEndian.Uint32(h[12:])
	j := append([]byte{}, h...)
	for len(j) < sector {
		j = append(j, 0)
	}
	nrecs := rt.Choose("records", 2) // thorough widens the header domain, not the number of records
	var pgs []uint32
	for i := 0; i < nrecs; i++ {
		pg := uint32([]int{1, 2, 3, 0, 9}[rt.Choose("record.pgno", 5)])
		data := rt.Bytes("rec", verifP)
		for _, b := range data {
			rt.Assume(b != 0xd9) // record data never happens to contain a second journal header
		}
		rec := verifJournalRecord(pg, data, nonce)
		if rt.Choose("record.badsum", 2) == 1 {
			rec[len(rec)-1] ^= 1
		}
		j = append(j, rec...)
		pgs = append(pgs, pg)
	}
	if t := rt.Choose("tail.garbage", 2+rt.Tier()); t > 0 {
		tail := rt.Bytes("tail", t*7)
		for _, b := range tail {
			rt.Assume(b != 0xd9)
		}
		j = append(j, tail...)
	}
	// the journal may also be cut off inside its header sector (SQLite then plays nothing back and leaves
	// the database alone, whatever the header fields say)
	headerCut := 0
	if sector == 512 && nrecs == 0 {
		headerCut = []int{0, 28, 100}[rt.Choose("header.cut", 3)]
		if headerCut > 0 {
			j = j[:headerCut]
		}
	}
	must(os.WriteFile(db.JournalPath(), j, 0o666))
	// an error is acceptable for garbage; a panic, a hang or a stray write is not
	rt.NoHang(3000, func() { _ = db.Recover(ctx) })
	if headerCut > 0 {
		verifC01CheckImage(w, img0, "a journal cut off inside its header sector changes nothing: no page is restored and the database keeps its size")
	}
	limit := int64(n0)
	if int64(dbSize) > limit {
		limit = int64(dbSize)
	}
	if fi, err := os.Stat(db.DatabasePath()); err == nil {
		rt.Check(fi.Size() <= limit*verifP, "database file not extended beyond its pages by a garbage journal")
	}
	rt.Reach("c17.journal.hostile")
}

// VerifC17WAL: any WAL byte sequence (header variants, frames with valid or
// broken salts/checksums, uncommitted tail, torn frame) checkpointed by LiteFS:
// exactly the frames of the longest valid prefix up to the last commit frame
// reach the database.
func VerifC17WAL() {
	ctx := context.Background()
	w := verifNewStore(true)
	n0 := 1 + rt.Choose("n0", 2)
	img0 := verifImage("img0", n0, true)
	w.verifOpenDB(img0, 41)
	db := w.db
	pos0 := db.Pos()
	hcase := rt.Choose("header", 5)
	m := &verifWALModel{salt1: rt.U32("wal.salt1"), salt2: rt.U32("wal.salt2")}
	if hcase == 0 || rt.Tier() > 0 {
		m.big = rt.Choose("wal.bigendian", 2) == 1
	}
	wal := m.header()
	hdrOK := true
	switch hcase {
	case 1: // wrong magic
		wal[3] ^= 0x10
		hdrOK = false
	case 2: // header checksum does not match
		wal[31] ^= 1
		hdrOK = false
	case 3: // unsupported version
		binary.BigEndian.PutUint32(wal[4:], 3007001)
		c1, c2 := verifWALSum(m.big, 0, 0, wal[:24])
		binary.BigEndian.PutUint32(wal[24:], c1)
		binary.BigEndian.PutUint32(wal[28:], c2)
		hdrOK = false
	case 4: // short header
		wal = wal[:1+rt.Choose("hdr.len", 2)*30]
		hdrOK = false
	}
	c1, c2 := uint32(0), uint32(0)
	if len(wal) >= 32 {
		c1, c2 = binary.BigEndian.Uint32(wal[24:]), binary.BigEndian.Uint32(wal[28:])
	}
	maxF := 2 // thorough: two frames after every header variant and both byte orders everywhere
	if hcase != 0 && rt.Tier() == 0 {
		maxF = 1
	}
	nf := rt.Choose("frames", maxF+1)
	if len(wal) < 32 {
		nf = 0
	}
	// reference result, computed while building
	want := make([][]byte, n0)
	copy(want, img0)
	pending := map[uint32][]byte{}
	valid := hdrOK
	committed := false
	wantN := n0
	for i := 0; i < nf; i++ {
		pgno := uint32(1 + rt.Choose("frame.pgno", n0+1))
		commit := uint32(0)
		if rt.Choose("frame.commit", 2) == 1 {
			commit = uint32(n0 - 1 + rt.Choose("commit.size", 3))
			if commit == 0 {
				rt.Assume(false)
			}
		}
		data := rt.Bytes("frame", verifP)
		h := make([]byte, WALFrameHeaderSize)
		binary.BigEndian.PutUint32(h[0:], pgno)
		binary.BigEndian.PutUint32(h[4:], commit)
		s1, s2 := m.salt1, m.salt2
		validity := rt.Choose("frame.validity", 3)
		if validity == 1 { // either salt word differs from the header's
			d := rt.U32("saltdelta")
			rt.Assume(d != 0)
			if rt.Choose("salt.word", 2) == 0 {
				s1 += d
			} else {
				s2 += d
			}
		}
		binary.BigEndian.PutUint32(h[8:], s1)
		binary.BigEndian.PutUint32(h[12:], s2)
		c1, c2 = verifWALSum(m.big, c1, c2, h[:8])
		c1, c2 = verifWALSum(m.big, c1, c2, data)
		k1, k2 := c1, c2
		if validity == 2 { // either checksum word is off
			d := rt.U32("sumdelta")
			rt.Assume(d != 0)
			if rt.Choose("sum.word", 2) == 0 {
				k1 += d
			} else {
				k2 += d
			}
		}
		binary.BigEndian.PutUint32(h[16:], k1)
		binary.BigEndian.PutUint32(h[20:], k2)
		wal = append(append(wal, h...), data...)
		if validity != 0 {
			valid = false // everything from the first invalid frame on is ignored
		}
		if valid {
			pending[pgno] = data
			if commit != 0 {
				// SQLite writes every page it adds to the database before the commit frame
				for p := uint32(len(want)) + 1; p <= commit; p++ {
					if _, ok := pending[p]; !ok {
						rt.Assume(false)
					}
				}
				for p, d := range pending {
					for int(p) > len(want) {
						want = append(want, make([]byte, verifP))
					}
					want[p-1] = d
				}
				pending = map[uint32][]byte{}
				committed, wantN = true, int(commit)
			}
		}
	}
	if rt.Choose("torn.tail", 2) == 1 && len(wal) >= 32 {
		wal = append(wal, rt.Bytes("torn", 24+100)...)
	}
	must(os.WriteFile(db.WALPath(), wal, 0o666))

	var err error
	rt.NoHang(3000, func() { err = db.Recover(ctx) })
	rt.Check(len(w.exits) == 0, "no fatal exit")
	if hcase == 1 || hcase == 3 {
		// not a WAL LiteFS understands (magic / version): it may refuse, but must not apply anything
		if err != nil {
			verifC01CheckImage(w, img0, "a WAL with an unknown header is never applied")
			rt.Check(db.Pos() == pos0, "position unchanged")
			rt.Reach("c17.wal.refused")
			return
		}
	}
	rt.Check(err == nil, "checkpoint succeeds for any frame content behind a well-formed header")
	wb, werr := os.ReadFile(db.WALPath())
	rt.Check(werr == nil && len(wb) == 0, "no un-checkpointed WAL content is left for SQLite to replay differently")
	if committed {
		for len(want) < wantN {
			want = append(want, make([]byte, verifP))
		}
		want = want[:wantN]
		rt.Reach("c17.wal.committed")
	} else {
		rt.Reach("c17.wal.nothing")
	}
	verifC01CheckImage(w, want, "database = image overlaid with the last committed version of each page from the longest valid prefix, sized by the last commit frame")
	rt.Check(db.PageN() == uint32(len(want)), "page count from the last commit frame")
	chk, cerr := db.checksum(db.PageN(), nil)
	rt.Check(cerr == nil && chk == verifSpecChecksum(w.verifReadImage()), "C04: checksum cache matches the checkpointed image")
	rt.Check(db.Pos() == pos0, "a checkpoint does not move the position")
}

// VerifC17JournalSmallSector: sector size 32 (the smallest SQLite accepts): one
// complete record and a torn second one. The sector-aligned offset after the
// last complete record lies inside the torn record, whose bytes are arbitrary
// page content and may imitate a segment header. Under SQLite's rules the size
// the database is cut back to comes from the first header only, and nothing is
// written outside the database's pages.
func VerifC17JournalSmallSector() {
	ctx := context.Background()
	w := verifNewStore(true)
	n0 := 2
	img0 := verifImage("img0", n0, false)
	w.verifOpenDB(img0, 41)
	db := w.db
	nonce := rt.U32("nonce")
	hdr := verifJournalHeader([]int32{1, 0, -1}[rt.Choose("nrec.mode", 3)], nonce, uint32(n0))
	binary.BigEndian.PutUint32(hdr[20:], 32)
	j := append([]byte{}, hdr[:32]...)
	j = append(j, verifJournalRecord(1, img0[0], nonce)...)
	torn := rt.Bytes("torn.record", 60+64*rt.Tier()) // arbitrary bytes where the second record began
	j = append(j, torn...)
	cur := [][]byte{rt.Bytes("mod", verifP), img0[1]}
	if rt.Choose("grown", 2) == 1 {
		cur = append(cur, rt.Bytes("grown", verifP))
	}
	must(os.WriteFile(db.DatabasePath(), verifJoin(cur), 0o666))
	must(os.WriteFile(db.JournalPath(), j, 0o666))
	var err error
	rt.NoHang(3000, func() { err = db.Recover(ctx) })
	rt.Check(err == nil && len(w.exits) == 0, "rollback succeeds")
	rt.Check(verifGone(db.JournalPath()), "no hot journal is left")
	b, rerr := os.ReadFile(db.DatabasePath())
	rt.Check(rerr == nil && len(b) == n0*verifP, "the database is cut back to the size recorded in the first journal header, whatever bytes follow the last valid record")
	rt.Check(db.PageN() == uint32(n0), "page count restored")
	rt.Reach("c17.journal.smallsector")
}
