package litefs

import (
	rt "github.com/superfly/litefs/internal/verifrt"
	"github.com/superfly/ltx"
)

// ---- C04 layer 1: algebra of the page/block checksum cache ----

func verifChksum(tag string) ltx.Checksum {
	return ltx.Checksum(rt.U64(tag)) | ltx.ChecksumFlag
}

// verifC04Effective is the from-scratch view: the checksum that counts for a page.
func verifC04Effective(db *DB, pgno uint32, newWAL map[uint32]ltx.Checksum, lock uint32) ltx.Checksum {
	if pgno == lock {
		return 0
	}
	if v, ok := newWAL[pgno]; ok {
		return v
	}
	if st := db.wal.chksums[pgno]; len(st) > 0 {
		return st[len(st)-1]
	}
	if int(pgno) <= len(db.chksums.pages) {
		return db.chksums.pages[pgno-1]
	}
	return 0
}

func verifC04Spec(db *DB, pageN uint32, newWAL map[uint32]ltx.Checksum, lock uint32) ltx.Checksum {
	var x ltx.Checksum
	for p := uint32(1); p <= pageN; p++ {
		x ^= verifC04Effective(db, p, newWAL, lock)
	}
	return ltx.ChecksumFlag | x
}

// verifC04BlockSpec is what a cached block checksum must equal when non-zero.
func verifC04BlockSpec(db *DB, block uint32) ltx.Checksum {
	var x ltx.Checksum
	for i := uint32(0); i < ChecksumBlockSize; i++ {
		if j := block*ChecksumBlockSize + i; int(j) < len(db.chksums.pages) {
			x ^= db.chksums.pages[j]
		}
	}
	return ltx.ChecksumFlag | x
}

func verifC04HasWAL(db *DB, newWAL map[uint32]ltx.Checksum, block uint32) bool {
	for p := range db.wal.chksums {
		if pageChksumBlock(p) == block {
			return true
		}
	}
	for p := range newWAL {
		if pageChksumBlock(p) == block {
			return true
		}
	}
	return false
}

// verifC04Inv: representation invariant R of the cache for page count pageN.
func verifC04Inv(db *DB, pageN uint32, newWAL map[uint32]ltx.Checksum, lock uint32) bool {
	ok := true
	for i, v := range db.chksums.pages {
		if !(v == 0 || v&ltx.ChecksumFlag != 0) {
			ok = false
		}
		if uint32(i+1) == lock && v != 0 {
			ok = false
		}
		if uint32(i+1) > pageN && v != 0 && !verifC04HasWAL(db, newWAL, pageChksumBlock(uint32(i+1))) {
			ok = false
		}
	}
	for b, v := range db.chksums.blocks {
		if v != 0 && v != verifC04BlockSpec(db, uint32(b)) {
			ok = false
		}
	}
	return ok
}

var verifC04Shapes = []int{0, 1, 3, 257, 256, 2, 255, 513}

// verifC04State builds an arbitrary cache state with n page slots.
func verifC04State(n int, lock uint32, missing int) *DB {
	db := &DB{pageSize: 4096}
	db.wal.chksums = make(map[uint32][]ltx.Checksum)
	db.chksums.pages = make([]ltx.Checksum, n)
	for i := range db.chksums.pages {
		if uint32(i+1) == lock || i == missing {
			continue
		}
		db.chksums.pages[i] = verifChksum("page")
	}
	// cached blocks: none or all slots present; each entry either empty or correct (symbolic choice)
	nb := 0
	if n > 0 && rt.Choose("blocks.len", 2) == 1 {
		nb = int(pageChksumBlock(uint32(n))) + 1
	}
	db.chksums.blocks = make([]ltx.Checksum, nb)
	for b := range db.chksums.blocks {
		db.chksums.blocks[b] = ltx.Checksum(rt.Ite64(rt.Bool("block.cached"), uint64(verifC04BlockSpec(db, uint32(b))), 0))
	}
	return db
}

// verifC04PickPage chooses a page among the interesting ones for n slots.
func verifC04PickPage(tag string, n int) uint32 {
	cands := []uint32{1}
	if n > 1 {
		cands = append(cands, uint32(n))
	}
	cands = append(cands, uint32(n)+1)
	if n >= 257 {
		cands = append(cands, 256, 257)
	}
	if rt.Tier() > 0 && n == 3 {
		cands = append(cands, 2)
	}
	return cands[rt.Choose(tag, len(cands))]
}

func verifC04Run(stubLock bool) {
	tier := rt.Tier()
	if stubLock {
		tier = 0 // the lock-page variant keeps the quick bounds in both tiers
	}
	ns := 4
	if tier > 0 {
		ns = len(verifC04Shapes)
	}
	n := verifC04Shapes[rt.Choose("slots", ns)]
	big := n >= 255 // block-boundary shapes: a reduced set of combinations (all four operations only in the thorough tier)
	if stubLock && n != 3 && n != 257 {
		rt.Assume(false) // lock-page variant: shapes 3 and 257
	}
	lock := ltx.LockPgno(4096)
	if stubLock {
		// generalise the lock page to any page number >= 2 (the real one is 262145 at 4 KiB)
		lock = verifC04PickPage("lock.page", n)
		if lock < 2 {
			rt.Assume(false)
		}
		l := lock
		rt.Stub("github.com/superfly/ltx.LockPgno", func(uint32) uint32 { return l })
	}
	missing := -1
	if n > 0 && !big && rt.Choose("missing", 2) == 1 {
		missing = n - 1
		if tier > 0 && n <= 3 && rt.Choose("missing.first", 2) == 1 {
			missing = 0
		}
	}
	db := verifC04State(n, lock, missing)

	maxEnt := 1
	if tier > 0 && n == 3 {
		maxEnt = 2 // two committed WAL entries: on the three-slot shape only
	}
	// committed WAL entries (stacks of 1..2)
	for i, k := 0, rt.Choose("wal.entries", maxEnt+1); i < k; i++ {
		p := verifC04PickPage("wal.page", n)
		st := []ltx.Checksum{verifChksum("wal.v1")}
		if rt.Choose("wal.depth", 2) == 1 {
			st = append(st, verifChksum("wal.v2"))
		}
		db.wal.chksums[p] = st
	}
	op := rt.Choose("op", 4)
	if big && tier == 0 && op != 0 && op != 2 {
		rt.Assume(false)
	}
	// entries of the transaction being committed (only for the plain checksum op in the quick tier)
	var newWAL map[uint32]ltx.Checksum
	if op == 0 || (tier > 0 && !big) {
		if k := rt.Choose("new.entries", 2); k > 0 { // at most one entry of the transaction being committed
			newWAL = map[uint32]ltx.Checksum{}
			for i := 0; i < k; i++ {
				p := verifC04PickPage("new.page", n)
				newWAL[p] = ltx.Checksum(rt.Ite64(rt.Bool("new.zero"), 0, uint64(verifChksum("new.v"))))
			}
		}
	}
	// page count: around the slot count
	// page count: around the slot count (n-2 reaches the last page of the previous block for n = 257)
	cands := []int{n, n - 1, n - 2, n + 1, 0}
	npn := len(cands)
	if big && tier == 0 {
		npn = 3
	}
	pageN := uint32(cands[rt.Choose("pageN", npn)])
	if int32(pageN) < 0 {
		rt.Assume(false)
	}
	rt.Assume(verifC04Inv(db, pageN, newWAL, lock))
	rt.Reach("c04.cache.state")

	switch op {
	case 0: // checksum from this state
	case 1: // a page write first
		p := verifC04PickPage("set.page", n)
		v := verifChksum("set.v")
		if p > pageN && rt.Choose("set.zero", 2) == 1 {
			v = 0 // clearing is only done for truncated pages
		}
		db.chksums.mu.Lock()
		db.setDatabasePageChecksum(p, v)
		got := db.databasePageChecksum(p)
		db.chksums.mu.Unlock()
		if p == lock {
			rt.Check(got == 0, "lock page never keeps a checksum")
		} else {
			rt.Check(got == v, "page checksum reads back")
		}
		if p > pageN && v != 0 && !verifC04HasWAL(db, newWAL, pageChksumBlock(p)) {
			rt.Assume(false) // writes beyond the page count happen only inside a transaction that grows the database
		}
		rt.Check(verifC04Inv(db, pageN, newWAL, lock), "R holds after setDatabasePageChecksum")
	case 2: // truncate
		db.chksums.mu.Lock()
		db.resetDatabasePageChecksumsAfter(pageN)
		db.chksums.mu.Unlock()
		for i := int(pageN); i < len(db.chksums.pages); i++ {
			rt.Check(db.chksums.pages[i] == 0, "slots after the new size are cleared")
		}
		rt.Check(verifC04Inv(db, pageN, newWAL, lock), "R holds after resetDatabasePageChecksumsAfter")
	case 3: // block accessor
		if n == 0 {
			rt.Assume(false)
		}
		b := uint32(rt.Choose("block", int(pageChksumBlock(uint32(n)))+1))
		db.chksums.mu.Lock()
		got := db.blockChksum(b)
		db.chksums.mu.Unlock()
		rt.Check(got == verifC04BlockSpec(db, b), "blockChksum = flagged XOR of the block's page slots")
		rt.Check(verifC04Inv(db, pageN, newWAL, lock), "R holds after blockChksum")
	}

	got, err := db.checksum(pageN, newWAL)
	want := verifC04Spec(db, pageN, newWAL, lock)
	if err == nil {
		rt.Check(got == want, "checksum() equals the from-scratch XOR of the effective page checksums (lock page excluded, top bit set)")
		rt.Check(got != want, "TWIN:checksum never equals the spec")
		rt.Reach("c04.cache.checksum")
	} else {
		// an error is only allowed when some page in range has no checksum at all
		miss := false
		for p := uint32(1); p <= pageN; p++ {
			if p != lock && verifC04Effective(db, p, newWAL, lock) == 0 {
				if _, isNew := newWAL[p]; !isNew {
					miss = true
				}
			}
		}
		rt.Check(miss, "checksum() fails only when a page in range has no checksum")
		rt.Reach("c04.cache.error")
	}
	if pageN == 0 {
		rt.Check(err == nil && got == ltx.ChecksumFlag, "empty database reports exactly the empty checksum")
	}
	rt.Check(verifC04Inv(db, pageN, newWAL, lock), "R holds after checksum()")
	rt.Check(db.chksums.mu.TryLock(), "cache mutex released")
}

// VerifC04Cache: real lock page (far outside the shapes explored).
func VerifC04Cache() { verifC04Run(false) }

// VerifC04CacheLock: the lock page generalised to any page >= 2 via a stub of ltx.LockPgno.
func VerifC04CacheLock() { verifC04Run(true) }
