package litefs

import (
	"bytes"
	"context"
	"errors"
	"io"
	"os"
	"syscall"
	"time"

	rt "github.com/superfly/litefs/internal/verifrt"
	"github.com/superfly/ltx"
)

// verifClient is the scripted peer: it records calls and fails on demand.
type verifClient struct {
	commits     int
	commitErr   error
	fsOpsAtCall int
	renamedAt   func() bool
	sawRename   bool
	halt        *HaltLock
	haltErr     error
	released    []int64
	releaseErr  error
}

func (c *verifClient) AcquireHaltLock(ctx context.Context, primaryURL string, nodeID uint64, name string, lockID int64) (*HaltLock, error) {
	return c.halt, c.haltErr
}
func (c *verifClient) ReleaseHaltLock(ctx context.Context, primaryURL string, nodeID uint64, name string, lockID int64) error {
	c.released = append(c.released, lockID)
	return c.releaseErr
}
func (c *verifClient) Commit(ctx context.Context, primaryURL string, nodeID uint64, name string, lockID int64, r io.Reader) error {
	c.commits++
	if c.renamedAt != nil {
		c.sawRename = c.renamedAt()
	}
	// the primary reads the whole file
	_, _ = io.Copy(io.Discard, r)
	return c.commitErr
}
func (c *verifClient) Stream(ctx context.Context, primaryURL string, nodeID uint64, posMap map[string]ltx.Pos, filter []string) (Stream, error) {
	return nil, errors.New("not used")
}

func verifAllUnlocked(db *DB) bool {
	for _, t := range verifAllLocks {
		if verifMutex(db, t).State() != RWMutexStateUnlocked {
			return false
		}
	}
	return true
}

// VerifC13PrimaryHalt: acquire / re-acquire / release / expiry of the halt lock
// on the primary, one step from each state of the halt cell.
func VerifC13PrimaryHalt() {
	ctx := context.Background()
	wal := rt.Choose("wal.mode", 2) == 1
	w := verifNewStore(true)
	w.verifOpenDB(verifImage("img0", 1, wal), 41)
	db := w.db
	w.store.HaltLockTTL = 30 * time.Second
	pos0 := db.Pos()
	id := rt.I64("lock.id")
	rt.Assume(id != 0)
	// C11: a forwarded transaction is applied without taking any lock, on the strength of the advertised
	// halt lock id alone; so the id may be advertised only while the halt's guard set holds the write locks:
	// no lock may leave the exclusive state while a halt lock is advertised (only the halt's guard set can
	// hold anything exclusively then; failed attempts of others only touch PENDING/SHARED in shared mode).
	watch := true
	for _, t := range verifAllLocks {
		verifMutex(db, t).OnLockStateChange = func(prev, next RWMutexState) {
			if watch && prev == RWMutexStateExclusive && next != RWMutexStateExclusive {
				rt.Check(db.HaltLockID() == 0, "no write lock is released while a halt lock id is still advertised (the id is set after the write locks are taken and cleared before they are released)")
			}
		}
	}

	// state of the halt cell before the step: empty, or held under id
	held := rt.Choose("held.before", 2) == 1
	var first *HaltLock
	if held {
		var err error
		first, err = db.AcquireHaltLock(ctx, id)
		watch = false
		rt.Check(err == nil && first != nil, "halt lock granted on an idle database")
		rt.Check(first.ID == id && first.Pos == pos0, "the grant carries the lock id and the primary's position at the grant")
		rt.Check(first.Expires != nil, "the grant carries an expiry")
		// while held: the internal write lock is pinned, so no local commit or checkpoint can take its locks
		rt.Check(db.TryAcquireWriteLock() == nil, "while halted the primary cannot take its own write lock (no local commit, no checkpoint)")
		ok, _ := db.TryLocks(ctx, 5, []LockType{LockTypeReserved})
		ok2, _ := db.TryLocks(ctx, 5, []LockType{LockTypeWrite})
		if wal {
			rt.Check(!ok2, "while halted a local WAL writer is refused")
		} else {
			rt.Check(!ok, "while halted a local rollback-journal writer is refused")
		}
		if g := db.GuardSet(5); g != nil {
			g.Unlock()
		}
		watch = true
	}
	switch rt.Choose("step", 6) {
	case 0: // acquire with the same id again (a retried request)
		if !held {
			rt.Assume(false)
		}
		again, err := db.AcquireHaltLock(ctx, id)
		rt.Check(err == nil && again != nil && again.ID == id && again.Pos == first.Pos && again.Expires.Equal(*first.Expires), "a repeated acquire with the same id returns the same lock")
		db.ReleaseHaltLock(ctx, id)
		rt.Check(verifAllUnlocked(db), "one release frees everything: the retry did not take a second set of locks")
		rt.Reach("c13.reacquire")
	case 1: // acquire with another id while held: must wait, here: time out
		if !held {
			rt.Assume(false)
		}
		other := rt.I64("other.id")
		rt.Assume(other != 0 && other != id)
		hl, err := db.AcquireHaltLock(ctx, other)
		rt.Check(err != nil && hl == nil, "a second holder is not admitted while the lock is held")
		cur := db.haltLockAndGuard.Load().(*haltLockAndGuard)
		rt.Check(cur != nil && cur.haltLock.ID == id, "the current holder is unchanged")
		rt.Reach("c13.second.refused")
	case 2: // release with the right / a wrong id
		rid := id
		wrong := rt.Choose("release.wrong.id", 2) == 1
		if wrong {
			rid = rt.I64("other.id")
			rt.Assume(rid != id)
		}
		db.ReleaseHaltLock(ctx, rid)
		cur := db.haltLockAndGuard.Load().(*haltLockAndGuard)
		if held && wrong {
			rt.Check(cur != nil && cur.haltLock.ID == id && !verifAllUnlocked(db), "release with another id changes nothing")
		} else {
			rt.Check(cur == nil && verifAllUnlocked(db), "release with the lock's id empties the cell and frees every lock: the primary can write again")
		}
		rt.Reach("c13.release")
	case 3: // expiry sweep
		if !held {
			rt.Assume(false)
		}
		// the node may have stopped being primary since it granted the lock (lease lost, handoff); the
		// sweep is the store's, run by its background monitor on every node
		if rt.Choose("granter.demoted", 2) == 1 {
			verifDemote(w.store)
		}
		pastExpiry := rt.Choose("clock.past.expiry", 2) == 1
		if pastExpiry {
			rt.ClockAdvance(int64(w.store.HaltLockTTL) + int64(time.Second))
		}
		w.store.EnforceHaltLockExpiration(ctx)
		cur := db.haltLockAndGuard.Load().(*haltLockAndGuard)
		if pastExpiry {
			rt.Check(cur == nil, "a halt lock whose TTL has passed is released by the sweep, whatever the node's role is by then")
		}
		if cur == nil {
			rt.Check(verifAllUnlocked(db), "an expired halt lock frees every lock")
			rt.Reach("c13.expired")
		} else {
			rt.Check(cur.haltLock.ID == id, "an unexpired halt lock stays")
			rt.Reach("c13.notexpired")
		}
	case 4: // id 0 is refused
		_, err := db.AcquireHaltLock(ctx, 0)
		rt.Check(err != nil, "lock id 0 is refused")
	case 5: // the recovery run while acquiring fails with an I/O error
		if held {
			rt.Assume(false)
		}
		fos := &verifFailOS{OS: db.os, ops: []string{"ROLLBACKJOURNAL", "CHECKPOINT:DB"}}
		db.os = fos
		hl, err := db.AcquireHaltLock(ctx, id)
		rt.Check(fos.failed > 0 && err != nil && hl == nil, "an I/O error during the recovery fails the acquisition")
		rt.Check(db.HaltLockID() == 0, "a failed acquisition leaves no halt lock advertised (a forwarded transaction would be applied without any lock held)")
		rt.Check(verifAllUnlocked(db), "a failed acquisition frees every lock")
		db.os = fos.OS
		again, err := db.AcquireHaltLock(ctx, id)
		rt.Check(err == nil && again != nil && db.TryAcquireWriteLock() == nil, "a retry after the failure really takes the write locks")
		rt.Reach("c13.acquire.ioerror")
	}
	rt.Check(db.Pos() == pos0, "halt operations do not move the position")
}

// verifFailOS fails the named operations with an I/O error.
type verifFailOS struct {
	OS
	ops    []string
	failed int
}

func (o *verifFailOS) hit(op string) bool {
	for _, x := range o.ops {
		if x == op {
			o.failed++
			return true
		}
	}
	return false
}

func (o *verifFailOS) OpenFile(op, name string, flag int, perm os.FileMode) (*os.File, error) {
	if o.hit(op) {
		return nil, &os.PathError{Op: "open", Path: name, Err: syscall.EIO}
	}
	return o.OS.OpenFile(op, name, flag, perm)
}

func (o *verifFailOS) Open(op, name string) (*os.File, error) {
	if o.hit(op) {
		return nil, &os.PathError{Op: "open", Path: name, Err: syscall.EIO}
	}
	return o.OS.Open(op, name)
}

// VerifC13RetryWhileWaiting: a retried acquire (same id) arrives while the first
// request is still waiting for the write lock; once the first one is granted, the
// retry must return that same lock instead of timing out.
func VerifC13RetryWhileWaiting() {
	ctx := context.Background()
	rt.TimeoutPolls = 3
	wal := rt.Choose("wal.mode", 2) == 1
	w := verifNewStore(true)
	w.verifOpenDB(verifImage("img0", 1, wal), 41)
	db := w.db
	id := rt.I64("lock.id")
	rt.Assume(id != 0)
	// a local connection is in the middle of a write transaction
	var ok bool
	if wal {
		ok, _ = db.TryLocks(ctx, 1, []LockType{LockTypeWrite})
	} else {
		ok, _ = db.TryLocks(ctx, 1, []LockType{LockTypeReserved})
	}
	rt.Check(ok, "harness: local writer holds its lock")
	var first *HaltLock
	rt.OnTick = func() {
		if first != nil || !rt.Bool("first.request.wins.now") {
			return
		}
		rt.OnTick = nil
		// the local writer finishes and the first request (same id) is granted
		db.GuardSet(1).Unlock()
		var err error
		first, err = db.AcquireHaltLock(ctx, id)
		rt.Check(err == nil && first != nil, "first request granted once the writer is done")
	}
	retry, err := db.AcquireHaltLock(ctx, id) // the retried request, same id
	rt.OnTick = nil
	if first != nil {
		rt.Check(err == nil && retry != nil, "a retried acquire with the same id succeeds once the first request holds the lock")
		if retry != nil {
			rt.Check(retry.ID == id && retry.Pos == first.Pos, "the retry returns the same lock")
		}
		db.ReleaseHaltLock(ctx, id)
		rt.Check(verifAllUnlocked(db), "one release frees everything (no second set of locks was taken)")
		rt.Reach("c13.retry.while.waiting")
	} else {
		rt.Check(err != nil && retry == nil, "still blocked by the local writer: the acquire times out without a lock")
		rt.Reach("c13.retry.timeout")
	}
}

// VerifC13ReplicaCommit: a replica holding the remote halt lock commits a
// rollback-journal transaction: the primary acknowledges before the commit is
// published locally; a refused remote commit publishes nothing.
func VerifC13ReplicaCommit() {
	ctx := context.Background()
	w, _ := verifC01Replica(1, false)
	db := w.db
	pos0 := db.Pos()
	cl := &verifClient{}
	w.store.Client = cl
	w.store.primaryInfo = &PrimaryInfo{Hostname: "p", AdvertiseURL: "http://p"}
	hl := &HaltLock{ID: rt.I64("lock.id"), Pos: pos0}
	db.remoteHaltLock.Store(hl)
	rt.Check(db.Writeable(), "holder of the remote halt lock may write")
	if rt.Choose("remote.fails", 2) == 1 {
		cl.commitErr = errors.New("primary refused")
	}
	ltxPath := db.LTXPath(42, 42)
	cl.renamedAt = func() bool { _, err := os.Stat(ltxPath); return err == nil }

	jf, err := db.CreateJournal()
	rt.Check(err == nil, "CreateJournal under the halt lock")
	rt.Check(db.WriteJournalAt(ctx, jf, verifJournalHeader(0, 1, 1), 0, 1) == nil, "journal header")
	dbf, _ := db.OpenDatabase(ctx)
	p := rt.Bytes("new", verifP)
	verifHeaderPage(p, 1, false)
	rt.Check(db.WriteDatabaseAt(ctx, dbf, p, 0, 1) == nil, "page write under the halt lock")
	err = db.RemoveJournal(ctx)
	rt.Check(cl.commits == 1, "the transaction is forwarded to the primary exactly once")
	rt.Check(!cl.sawRename, "the primary is asked before the transaction file is published locally")
	if cl.commitErr != nil {
		rt.Check(err != nil, "a refused remote commit fails the local commit")
		rt.Check(db.Pos() == pos0 && verifGone(ltxPath), "a refused remote commit publishes nothing and leaves the position")
		rt.Reach("c13.remote.refused")
	} else {
		rt.Check(err == nil, "acknowledged commit succeeds")
		rt.Check(db.Pos().TXID == 42 && !verifGone(ltxPath), "acknowledged commit is published under the next TXID")
		x, derr := verifDecodeLTX(ltxPath)
		rt.Check(derr == nil && x.hdr.NodeID == w.store.ID(), "the forwarded file carries this node's id (so the echo from the primary is skipped)")
		rt.Reach("c13.remote.acked")
	}
}

// VerifC13WaitPos: WaitPosExact returns nil only at exactly the target position.
func VerifC13WaitPos() {
	w, _ := verifC01Replica(1, false)
	db := w.db
	target := ltx.Pos{TXID: ltx.TXID(rt.U64("target.txid")), PostApplyChecksum: ltx.Checksum(rt.U64("target.chk"))}
	// the replication stream moves the position while we wait
	rt.OnTick = func() {
		if rt.Bool("stream.applies") {
			db.pos.Store(ltx.Pos{TXID: ltx.TXID(rt.U64("pos.txid")), PostApplyChecksum: ltx.Checksum(rt.U64("pos.chk"))})
		}
	}
	err := db.WaitPosExact(rt.NewEnvCtx(3), target)
	rt.OnTick = nil
	if err == nil {
		rt.Check(db.Pos() == target, "WaitPosExact returns nil only at exactly the target (TXID and checksum)")
		rt.Reach("c13.waitpos.ok")
	} else {
		rt.Reach("c13.waitpos.err")
	}
}

// VerifC13HaltAfterWriter: a halt request arrives while a local write
// transaction is in flight; the transaction commits, then the halt is granted.
// The lock must name the position of the halted primary (after that commit).
func VerifC13HaltAfterWriter() {
	ctx := context.Background()
	rt.TimeoutPolls = 3
	w := verifNewStore(true)
	w.verifOpenDB(verifImage("img0", 1, false), 41)
	db := w.db
	pos0 := db.Pos()
	id := rt.I64("lock.id")
	rt.Assume(id != 0)
	// local connection: SHARED + RESERVED, journal written, page written, not yet committed
	rt.Check(db.TryRLocks(ctx, 1, []LockType{LockTypeShared}), "harness: SHARED")
	ok, _ := db.TryLocks(ctx, 1, []LockType{LockTypeReserved})
	rt.Check(ok, "harness: RESERVED")
	jf, err := db.CreateJournal()
	rt.Check(err == nil, "harness: journal")
	rt.Check(db.WriteJournalAt(ctx, jf, verifJournalHeader(0, 1, 1), 0, 1) == nil, "harness: journal header")
	dbf, _ := db.OpenDatabase(ctx)
	p := rt.Bytes("new", verifP)
	verifHeaderPage(p, 1, false)
	rt.Check(db.WriteDatabaseAt(ctx, dbf, p, 0, 1) == nil, "harness: page write")
	committed := false
	rt.OnTick = func() {
		if committed || !rt.Bool("writer.commits.now") {
			return
		}
		committed = true
		rt.Check(db.Pos() == pos0, "nothing is published before the commit")
		rt.Check(db.RemoveJournal(ctx) == nil, "the in-flight local transaction commits")
		rt.Check(db.Pos().TXID == pos0.TXID+1, "harness: local commit advanced the position")
		db.GuardSet(1).Unlock()
	}
	hl, err := db.AcquireHaltLock(ctx, id)
	rt.OnTick = nil
	if !committed {
		rt.Check(err != nil && hl == nil, "the halt is not granted while a local write transaction is in flight")
		rt.Reach("c13.halt.blocked")
		return
	}
	rt.Check(err == nil && hl != nil, "halt granted once the local transaction is done")
	rt.Check(hl.Pos == db.Pos(), "the halt lock names exactly the halted primary's position (the replica starts writing from there)")
	ok, _ = db.TryLocks(ctx, 1, []LockType{LockTypeReserved})
	rt.Check(!ok, "no local write transaction can start while the halt is held")
	rt.Check(db.Pos() == hl.Pos, "position unchanged while halted")
	db.ReleaseHaltLock(ctx, id)
	rt.Check(verifAllUnlocked(db), "release frees everything")
	rt.Reach("c13.halt.after.writer")
}

// VerifC13ExpiredHaltStream: a replica still believes it holds the remote halt
// lock (it expired on the primary, or the release response was lost); the
// primary writes again and its next transaction arrives on the stream. The
// former holder must drop the stale lock and follow the primary: the call
// returns, the transaction is applied, and the node is no longer writable.
func VerifC13ExpiredHaltStream() {
	ctx := context.Background()
	n0 := 1 + rt.Choose("n0", 2)
	w, img0 := verifC01Replica(n0, rt.Choose("wal.mode", 2) == 1)
	db := w.db
	pos0 := db.Pos()
	db.remoteHaltLock.Store(&HaltLock{ID: 5, Pos: pos0})
	rt.Check(db.Writeable(), "harness: holder of the remote halt lock may write")
	if n0 == 2 && db.Mode() != DBModeWAL && rt.Choose("abandoned.local.tx", 2) == 1 {
		// the holder was in the middle of a local transaction when its lock lapsed: page 2 is dirty in the
		// database file and its original content sits in a hot journal; the connection is gone (no locks)
		nonce := rt.U32("nonce")
		j := append(verifJournalHeader(1, nonce, uint32(n0)), verifJournalRecord(2, img0[1], nonce)...)
		must(os.WriteFile(db.JournalPath(), j, 0o666))
		must(os.WriteFile(db.DatabasePath(), verifJoin([][]byte{img0[0], rt.Bytes("abandoned", verifP)}), 0o666))
	}
	p := rt.Bytes("primary.tx", verifP)
	verifHeaderPage(p, uint32(n0), db.Mode() == DBModeWAL)
	want := make([][]byte, n0)
	copy(want, img0)
	want[0] = p
	hdr := ltx.Header{PageSize: verifP, Commit: uint32(n0), MinTXID: pos0.TXID + 1, MaxTXID: pos0.TXID + 1, PreApplyChecksum: pos0.PostApplyChecksum, NodeID: 99}
	rt.Assume(w.store.ID() != 99)
	file := verifEncodeLTX(hdr, []uint32{1}, [][]byte{p}, verifSpecChecksum(want))
	var err error
	rt.NoHang(2000, func() {
		err = w.store.processLTXStreamFrame(ctx, &LTXStreamFrame{Name: "db"}, bytes.NewReader(file))
	})
	rt.Check(err == nil && len(w.exits) == 0, "the primary's transaction is applied by the former halt-lock holder (no error, no fatal exit)")
	rt.Check(verifGone(db.JournalPath()), "an abandoned local transaction is rolled back before the primary's transaction is applied")
	rt.Check(db.RemoteHaltLock() == nil && !db.Writeable(), "the stale halt lock is dropped: the former holder can no longer write or publish")
	rt.Check(db.Pos() == ltx.Pos{TXID: pos0.TXID + 1, PostApplyChecksum: verifSpecChecksum(want)}, "C01: the replica reaches the primary's position")
	verifC01CheckImage(w, want, "C01: image is the primary's")
	rt.Check(verifAllUnlocked(db), "no lock is left behind")
	_ = img0
	rt.Reach("c13.expired.halt.stream")
}

// VerifC13ReleaseLost: the application gives the remote halt lock up; the
// release may not reach the primary (request fails, or no primary is known).
// Whatever happens to the request, the former holder is no longer writable.
func VerifC13ReleaseLost() {
	ctx := context.Background()
	w, _ := verifC01Replica(1, rt.Choose("wal.mode", 2) == 1)
	db := w.db
	pos0 := db.Pos()
	cl := &verifClient{}
	w.store.Client = cl
	fate := rt.Choose("release.fate", 4) // 0 delivered, 1 request fails, 2 no primary known, 3 this node has become primary meanwhile
	if fate == 0 || fate == 1 {
		w.store.primaryInfo = &PrimaryInfo{Hostname: "p", AdvertiseURL: "http://p"}
	}
	if fate == 3 {
		w.store.mu.Lock()
		w.store.setLease(&verifLease{})
		w.store.mu.Unlock()
	}
	if fate == 1 {
		cl.releaseErr = errors.New("connection reset")
	}
	db.remoteHaltLock.Store(&HaltLock{ID: 5, Pos: pos0})
	rt.Check(db.Writeable(), "harness: holder of the remote halt lock may write")
	err := db.ReleaseRemoteHaltLock(ctx, 5)
	if fate == 3 {
		// primary change while the halt was held: nothing to tell anybody, but the stale record must go,
		// otherwise every later local commit would be forwarded to a primary that does not exist
		rt.Check(err == nil && len(cl.released) == 0, "release on the new primary is local")
		rt.Check(db.RemoteHaltLock() == nil, "the stale remote halt lock is dropped when its holder has become primary")
		jf, jerr := db.CreateJournal()
		rt.Check(jerr == nil, "the new primary can write again")
		rt.Check(db.WriteJournalAt(ctx, jf, verifJournalHeader(0, 1, 1), 0, 1) == nil, "journal header")
		dbf, _ := db.OpenDatabase(ctx)
		p := rt.Bytes("local", verifP)
		verifHeaderPage(p, 1, db.Mode() == DBModeWAL)
		rt.Check(db.WriteDatabaseAt(ctx, dbf, p, 0, 1) == nil, "page write on the new primary")
		rt.Check(db.RemoveJournal(ctx) == nil && cl.commits == 0, "the new primary commits locally, nothing is forwarded")
		rt.Check(db.Pos().TXID == pos0.TXID+1, "local commit advances the position")
		rt.Reach("c13.release.promoted")
		return
	}
	if fate == 0 {
		rt.Check(err == nil && len(cl.released) == 1 && cl.released[0] == 5, "release delivered to the primary under the lock's id")
	} else {
		rt.Check(err != nil, "an undelivered release is reported")
	}
	rt.Check(db.RemoteHaltLock() == nil && !db.Writeable(), "after the release the former holder can no longer write or publish, whether or not the primary heard of it")
	dbf, _ := db.OpenDatabase(ctx)
	p := rt.Bytes("late", verifP)
	rt.Check(db.WriteDatabaseAt(ctx, dbf, p, 0, 1) == ErrReadOnlyReplica, "C07: a page write after the release is refused")
	_, jerr := db.CreateJournal()
	rt.Check(jerr == ErrReadOnlyReplica, "C07: journal creation after the release is refused")
	rt.Check(db.Pos() == pos0, "position unchanged")
	rt.Reach("c13.release")
}
