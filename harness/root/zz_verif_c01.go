package litefs

import (
	"bytes"
	"context"
	"os"

	rt "github.com/superfly/litefs/internal/verifrt"
	"github.com/superfly/ltx"
)

// verifEncodeLTX builds an LTX file with the real encoder.
func verifEncodeLTX(hdr ltx.Header, pgnos []uint32, pages [][]byte, post ltx.Checksum) []byte {
	var buf bytes.Buffer
	enc := ltx.NewEncoder(&buf)
	hdr.Version = ltx.Version
	rt.Check(enc.EncodeHeader(hdr) == nil, "harness: LTX header encodes")
	for i, p := range pgnos {
		rt.Check(enc.EncodePage(ltx.PageHeader{Pgno: p}, pages[i]) == nil, "harness: LTX page encodes")
	}
	enc.SetPostApplyChecksum(post)
	rt.Check(enc.Close() == nil, "harness: LTX encoder closes")
	return buf.Bytes()
}

// verifC01Replica builds a replica with database "db" at position (41, checksum(img0)).
func verifC01Replica(n0 int, wal bool) (*verifWorld, [][]byte) {
	w := verifNewStore(false)
	img0 := verifImage("img0", n0, wal)
	w.verifOpenDB(img0, 41)
	return w, img0
}

func verifC01CheckImage(w *verifWorld, want [][]byte, msg string) {
	img := w.verifReadImage()
	rt.Check(len(img) == len(want), msg+": size")
	for i := range img {
		if i < len(want) {
			rt.Check(verifSamePage(img[i], want[i]), msg+": page bytes")
		}
	}
}

// VerifC01Apply: a replica receives one transaction file from the stream.
func VerifC01Apply() {
	ctx := context.Background()
	maxN := 2
	if rt.Tier() > 0 {
		maxN = 3
	}
	n0 := 1 + rt.Choose("n0", maxN)
	w, img0 := verifC01Replica(n0, rt.Choose("wal.mode", 2) == 1)
	db := w.db
	pos0 := db.Pos()

	snapshot := rt.Choose("snapshot", 2) == 1
	commit := n0 - 1 + rt.Choose("commit.delta", 3)
	if commit < 1 {
		rt.Assume(false)
	}
	// pages carried by the file (ascending); new pages are always included
	want := make([][]byte, commit)
	for i := 0; i < commit && i < n0; i++ {
		want[i] = img0[i]
	}
	var pgnos []uint32
	var pages [][]byte
	for p := 1; p <= commit; p++ {
		if snapshot || p > n0 || rt.Choose("page.included", 2) == 1 {
			data := rt.Bytes("new", verifP)
			if p == 1 {
				verifHeaderPage(data, uint32(commit), rt.Bool("to.wal"))
			}
			pgnos, pages = append(pgnos, uint32(p)), append(pages, data)
			want[p-1] = data
		}
	}
	if len(pgnos) == 0 {
		rt.Assume(false)
	}
	spec := verifSpecChecksum(want)
	post := spec
	badPost := rt.Choose("post.mismatch", 2) == 1
	if badPost {
		d := rt.U64("post.delta")
		rt.Assume(d != 0 && d&uint64(ltx.ChecksumFlag) == 0)
		post = spec ^ ltx.Checksum(d)
	}
	hdr := ltx.Header{PageSize: verifP, Commit: uint32(commit), Timestamp: rt.I64("ts"), NodeID: rt.U64("origin.node")}
	rt.Assume(hdr.NodeID != w.store.ID())
	preOK, minOK := true, true
	if snapshot {
		hdr.MinTXID, hdr.MaxTXID = 1, ltx.TXID([]uint64{42, 7, 41, 1}[rt.Choose("snap.max", 4)]) // ahead, behind, the very TXID this node is at (other history), or a one-transaction history
	} else {
		hdr.MinTXID = ltx.TXID([]uint64{42, 43, 41}[rt.Choose("min.txid", 3)])
		hdr.MaxTXID = hdr.MinTXID
		minOK = hdr.MinTXID == 42
		hdr.PreApplyChecksum = pos0.PostApplyChecksum
		if rt.Choose("pre.mismatch", 2) == 1 {
			d := rt.U64("pre.delta")
			rt.Assume(d != 0 && d&uint64(ltx.ChecksumFlag) == 0)
			hdr.PreApplyChecksum ^= ltx.Checksum(d)
			preOK = false
		}
	}
	if snapshot && badPost {
		rt.Assume(false) // the decoder itself re-derives a snapshot's checksum; covered by pre/post cases of incrementals
	}
	file := verifEncodeLTX(hdr, pgnos, pages, post)
	old := db.LTXPath(40, 40)
	must(os.WriteFile(old, []byte("older file"), 0o666))

	if rt.Symbolic() {
		rt.FSLog, rt.FSLogOn = nil, true
	}
	err := w.store.processLTXStreamFrame(ctx, &LTXStreamFrame{Name: "db", Size: int64(len(file))}, bytes.NewReader(file))
	rt.FSLogOn = false
	pos1 := db.Pos()

	if !snapshot && (!preOK || !minOK) {
		rt.Reach("c01.rejected")
		rt.Check(err != nil, "C06: a file that does not extend the exact current (TXID, checksum) is rejected")
		rt.Check(pos1 == pos0, "C06: rejected file leaves the position unchanged")
		verifC01CheckImage(w, img0, "C06: rejected file leaves the image unchanged")
		names := verifLTXNames(db)
		rt.Check(len(names) == 1 && names[0] == "0000000000000028-0000000000000028.ltx", "C06: rejected file leaves the transaction log unchanged")
		rt.Check(len(w.exits) == 0, "rejection is not fatal")
		if rt.Symbolic() {
			muts := 0
			for _, op := range rt.FSLog {
				if op.Op != "sync" {
					muts++
				}
			}
			rt.Check(muts == 0, "C06: rejection happens before any file-system mutation")
		}
		return
	}
	if badPost {
		rt.Reach("c01.postmismatch")
		rt.Check(err != nil, "a post-apply checksum that does not match the resulting image is an error")
		rt.Check(len(w.exits) == 1 && w.exits[0] == 99, "checksum mismatch after apply stops the node (exit 99)")
		rt.Check(pos1 == pos0, "position is not advanced over a mismatching image")
		return
	}
	rt.Reach("c01.applied")
	rt.Check(err == nil, "a file extending the current position applies")
	rt.Check(len(w.exits) == 0, "no fatal exit")
	rt.Check(false, "TWIN:apply never succeeds")
	verifC01CheckImage(w, want, "replica image = previous image overwritten by exactly the file's pages, cut to commit")
	rt.Check(pos1.TXID == hdr.MaxTXID && pos1.PostApplyChecksum == post, "position = (max TXID, post-apply checksum) of the file")
	rt.Check(pos1.PostApplyChecksum == verifSpecChecksum(w.verifReadImage()), "C04: reported checksum equals the from-scratch checksum")
	rt.Check(db.PageN() == uint32(commit), "page count = commit")
	wantMode := db.Mode()
	if pgnos[0] == 1 {
		wantMode = DBModeRollback
		if pages[0][18] == 2 && pages[0][19] == 2 {
			wantMode = DBModeWAL
		}
		rt.Check(db.Mode() == wantMode, "journal mode follows page 1 of the applied file")
	}
	// transaction log: the new file is there; a snapshot replaces the chain
	names := verifLTXNames(db)
	newName := ltx.FormatFilename(hdr.MinTXID, hdr.MaxTXID)
	if snapshot {
		rt.Check(len(names) == 1 && names[0] == newName, "C09: a received snapshot replaces the whole chain")
	} else {
		rt.Check(len(names) == 2 && names[1] == newName, "the received file joins the chain")
	}
	// invalidation: every page written is invalidated, then the position, the SHM and (snapshot) the database
	posAt, shmAt, dbAt := -1, -1, -1
	for i, c := range w.inv.calls {
		switch c.kind {
		case "pos":
			posAt = i
		case "shm":
			shmAt = i
		case "db":
			dbAt = i
		}
	}
	for _, p := range pgnos {
		found := false
		for i, c := range w.inv.calls {
			if c.kind == "range" && c.off == int64(p-1)*verifP && c.size == verifP && (posAt < 0 || i < posAt) {
				found = true
			}
		}
		rt.Check(found, "every page written is invalidated in the page cache before the position is published")
	}
	rt.Check(posAt >= 0, "position file invalidated")
	rt.Check(shmAt > posAt, "SHM rewritten and invalidated after the position")
	if snapshot {
		rt.Check(dbAt >= 0, "a snapshot invalidates the whole database")
	}
	_, dirty := w.sub.DirtySet()["db"]
	rt.Check(dirty, "apply marks the database dirty for downstream subscribers")
	if rt.Symbolic() {
		ren, firstDB := -1, -1
		for i, op := range rt.FSLog {
			if op.Op == "rename" && ren < 0 {
				ren = i
			}
			if op.Path == db.DatabasePath() && firstDB < 0 {
				firstDB = i
			}
		}
		rt.Check(ren >= 0 && firstDB > ren, "the received file is renamed into place before the database is touched")
	}
}

// VerifC01OwnFrame: a frame that originated on this node (forwarded write) is
// verified and skipped.
func VerifC01OwnFrame() {
	ctx := context.Background()
	w, img0 := verifC01Replica(1, false)
	db := w.db
	pos0 := db.Pos()
	data := rt.Bytes("new", verifP)
	verifHeaderPage(data, 1, false)
	hdr := ltx.Header{PageSize: verifP, Commit: 1, MinTXID: 42, MaxTXID: 42, PreApplyChecksum: pos0.PostApplyChecksum, NodeID: w.store.ID()}
	file := verifEncodeLTX(hdr, []uint32{1}, [][]byte{data}, verifSpecChecksum([][]byte{data}))
	if rt.Choose("corrupt", 2) == 1 {
		file[len(file)-1] ^= 1
		err := w.store.processLTXStreamFrame(ctx, &LTXStreamFrame{Name: "db"}, bytes.NewReader(file))
		rt.Check(err != nil, "a corrupt duplicate is reported")
	} else {
		err := w.store.processLTXStreamFrame(ctx, &LTXStreamFrame{Name: "db"}, bytes.NewReader(file))
		rt.Check(err == nil, "own frame is skipped without error")
	}
	rt.Check(db.Pos() == pos0, "own frame does not move the position")
	verifC01CheckImage(w, img0, "own frame does not touch the image")
	rt.Check(len(verifLTXNames(db)) == 0, "own frame is not stored again")
	rt.Reach("c01.ownframe")
}
