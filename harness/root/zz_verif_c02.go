package litefs

import (
	"bytes"
	"context"
	"os"

	rt "github.com/superfly/litefs/internal/verifrt"
	"github.com/superfly/ltx"
)

// VerifC02Journal: one rollback-journal transaction as a pager program from a
// database at an arbitrary position.
func VerifC02Journal() {
	ctx := context.Background()
	w := verifNewStore(true)
	maxN := 2
	if rt.Tier() > 0 {
		maxN = 3
	}
	n0 := 1 + rt.Choose("n0", maxN)
	t0 := ltx.TXID([]uint64{1, 41}[rt.Choose("t0", 2)])
	img0 := verifImage("img0", n0, false)
	w.verifOpenDB(img0, t0)
	db := w.db
	pos0 := db.Pos()
	rt.Check(pos0.PostApplyChecksum == verifSpecChecksum(img0), "C04: position checksum after Open equals the from-scratch checksum")

	scenario := rt.Choose("scenario", 3) // 0 commit, 1 lock taken without writing, 2 rollback by rewriting
	mode := rt.Choose("journal.mode", 3) // DELETE / TRUNCATE / PERSIST

	// journal creation + header (one 512-byte sector)
	jf, err := db.CreateJournal()
	rt.Check(err == nil, "CreateJournal on a primary")
	hdr := make([]byte, 512)
	if scenario != 1 {
		copy(hdr, SQLITE_JOURNAL_HEADER_STRING)
		copy(hdr[8:28], rt.Bytes("jhdr", 20))
	}
	rt.Check(db.WriteJournalAt(ctx, jf, hdr, 0, 1) == nil, "journal header write")
	if scenario == 0 && rt.Choose("header.rewrite", 2) == 1 {
		// SQLite rewrites the start of the header while the transaction runs: the unsynced form (zero magic
		// and record count, the other fields set) and later magic + record count again. Only a write of 28
		// zero bytes is the PERSIST finalisation; these rewrites are not.
		h28 := make([]byte, SQLITE_JOURNAL_HEADER_SIZE)
		copy(h28[12:], rt.Bytes("jhdr.fields", 16))
		h28[22] = 2 // sector size 512: the header is certainly not all zero
		rt.Check(db.WriteJournalAt(ctx, jf, h28, 0, 1) == nil, "journal header rewrite (unsynced form)")
		rt.Check(db.Pos() == pos0 && len(verifLTXNames(db)) == 0, "rewriting the journal header is not a commit")
		h12 := make([]byte, 12)
		copy(h12, SQLITE_JOURNAL_HEADER_STRING)
		rt.Check(db.WriteJournalAt(ctx, jf, h12, 0, 1) == nil, "journal header rewrite (magic and record count)")
		rt.Check(db.Pos() == pos0, "rewriting the journal header is not a commit")
	}

	// page writes
	commit := n0
	overshoot := 0
	var written []int
	cur := make([][]byte, n0)
	copy(cur, img0)
	dbf, err := db.OpenDatabase(ctx)
	rt.Check(err == nil, "OpenDatabase")
	if scenario != 1 {
		commit = n0 - 1 + rt.Choose("commit.delta", 3)
		if commit < 1 {
			rt.Assume(false)
		}
		for len(cur) < commit {
			cur = append(cur, nil)
		}
		// page 1 is written when the size changes or by choice; new pages are always written
		wr := make([]bool, len(cur))
		wr[0] = commit != n0 || rt.Choose("write.p1", 2) == 1
		for p := 2; p <= len(cur); p++ {
			wr[p-1] = p > n0 || rt.Choose("write.page", 2) == 1
		}
		for p := 1; p <= len(cur); p++ {
			if !wr[p-1] {
				continue
			}
			data := rt.Bytes("new", verifP)
			if p == 1 {
				verifHeaderPage(data, uint32(commit), rt.Bool("to.wal"))
			}
			if scenario == 2 && p <= n0 {
				data = img0[p-1] // rolled back: the original content is written back
			}
			rt.Check(db.WriteDatabaseAt(ctx, dbf, data, int64(p-1)*verifP, 1) == nil, "page write on a primary")
			cur[p-1] = data
			written = append(written, p)
		}
		if scenario == 2 {
			commit = n0
			if len(cur) > n0 {
				rt.Assume(false) // a rolled-back growth is not modelled here
			}
		}
		// a cache spill may have appended pages that the same transaction frees again: they are written
		// beyond the size that is finally committed and cut off by SQLite's truncate afterwards
		if scenario == 0 {
			overshoot = rt.Choose("overshoot", 2)
			for p := commit + 1; p <= commit+overshoot; p++ {
				rt.Check(db.WriteDatabaseAt(ctx, dbf, rt.Bytes("spilled", verifP), int64(p-1)*verifP, 1) == nil, "page write beyond the final size")
				written = append(written, p)
			}
		}
	}
	if rt.Symbolic() {
		rt.FSLog, rt.FSLogOn = nil, true
	}
	// finalisation
	switch mode {
	case 0:
		err = db.RemoveJournal(ctx)
	case 1:
		err = db.TruncateJournal(ctx)
	case 2:
		err = db.WriteJournalAt(ctx, jf, make([]byte, SQLITE_JOURNAL_HEADER_SIZE), 0, 1)
	}
	rt.FSLogOn = false
	rt.Check(err == nil, "journal finalisation succeeds")
	rt.Check(len(w.exits) == 0, "Exit is never called by a journal commit")
	if commit < n0 || overshoot > 0 {
		// SQLite truncates the file once the new size is committed
		rt.Check(db.TruncateDatabase(ctx, int64(commit)*verifP) == nil, "TruncateDatabase to the committed size")
	}
	pos1 := db.Pos()
	img1 := w.verifReadImage()
	names := verifLTXNames(db)

	// journal invalidated per mode
	jb, jerr := os.ReadFile(db.JournalPath())
	switch mode {
	case 0:
		rt.Check(os.IsNotExist(jerr), "DELETE: journal removed")
	case 1:
		rt.Check(jerr == nil && len(jb) == 0, "TRUNCATE: journal empty")
	case 2:
		rt.Check(jerr == nil && len(jb) >= 28 && isByteSliceZero(jb[:28]), "PERSIST: journal header zeroed")
	}
	rt.Check(len(db.dirtyPageSet) == 0, "dirty page set cleared")

	if scenario == 1 {
		rt.Reach("c02.nowrite")
		rt.Check(pos1 == pos0, "write lock taken without writing: position unchanged")
		rt.Check(len(names) == 0, "no transaction file created")
		rt.Check(len(img1) == n0, "image size unchanged")
		for i := range img1 {
			rt.Check(verifSamePage(img1[i], img0[i]), "image unchanged")
		}
		return
	}

	// committed (scenario 0) or rolled back by rewriting (scenario 2): one new file
	rt.Check(pos1.TXID == pos0.TXID+1, "position advances by exactly one")
	rt.Check(false, "TWIN:journal commit never advances")
	want := ltx.FormatFilename(pos0.TXID+1, pos0.TXID+1)
	rt.Check(len(names) == 1 && names[0] == want, "exactly one new transaction file named after the new TXID")
	x, derr := verifDecodeLTX(db.LTXPath(pos1.TXID, pos1.TXID))
	rt.Check(derr == nil, "the new transaction file passes its own integrity check")
	rt.Check(x.hdr.MinTXID == pos1.TXID && x.hdr.MaxTXID == pos1.TXID, "file covers exactly the new TXID")
	rt.Check(x.hdr.PreApplyChecksum == pos0.PostApplyChecksum || (pos0.TXID == 0), "pre-checksum equals the previous position's checksum")
	rt.Check(x.hdr.Commit == uint32(commit) && x.hdr.PageSize == verifP, "commit size and page size")
	rt.Check(x.hdr.NodeID == w.store.ID(), "node id recorded")
	rt.Check(x.hdr.WALOffset == 0 && x.hdr.WALSize == 0, "no WAL fields on a journal commit")

	// page set = written pages within the new size, ascending, with the bytes now in the file
	k := 0
	for _, p := range written {
		if p > commit {
			continue
		}
		rt.Check(k < len(x.pgnos) && x.pgnos[k] == uint32(p), "transaction file holds exactly the dirty pages <= commit in order")
		rt.Check(verifSamePage(x.pages[k], cur[p-1]), "transaction file page bytes are the bytes written")
		k++
	}
	rt.Check(k == len(x.pgnos), "no page beyond the dirty set")
	for _, p := range x.pgnos {
		rt.Check(p >= 1 && p <= uint32(commit), "no page beyond the new size")
	}

	// image SQLite now sees = previous image overwritten by the file's pages, cut to commit
	rt.Check(len(img1) == commit, "database file has the committed size")
	for i := 0; i < commit && i < len(img1); i++ {
		rt.Check(verifSamePage(img1[i], cur[i]), "image is the previous image overwritten by the written pages")
	}
	if scenario == 2 {
		rt.Reach("c02.rollback")
		rt.Check(pos1.PostApplyChecksum == pos0.PostApplyChecksum, "rolled-back transaction: checksum unchanged")
	} else {
		rt.Reach("c02.commit")
	}
	spec := verifSpecChecksum(img1)
	rt.Check(x.trailer.PostApplyChecksum == spec, "C04: post-apply checksum in the file equals the from-scratch checksum")
	rt.Check(pos1.PostApplyChecksum == spec, "C04: reported checksum equals the from-scratch checksum")
	rt.Check(db.PageN() == uint32(commit), "page count follows the commit")
	wantMode := DBModeRollback
	if len(img1) > 0 && img1[0][18] == 2 && img1[0][19] == 2 {
		wantMode = DBModeWAL
	}
	if scenario == 0 && len(written) > 0 && written[0] == 1 {
		rt.Check(db.Mode() == wantMode, "journal mode follows page 1")
	}
	// the change is announced to subscribers
	_, dirty := w.sub.DirtySet()["db"]
	rt.Check(dirty, "C01: commit marks the database dirty for subscribers")

	// order: the transaction file is in place before the journal is invalidated
	if rt.Symbolic() {
		ren, inval := -1, -1
		for i, op := range rt.FSLog {
			if op.Op == "rename" && ren < 0 {
				ren = i
			}
			if op.Path == db.JournalPath() && inval < 0 {
				inval = i
			}
		}
		rt.Check(ren >= 0 && inval > ren, "transaction file renamed into place before the journal is invalidated")
	}
}

// VerifC02AfterModeChange: a replica in WAL mode applies a transaction that
// switches the database to rollback-journal mode, is then promoted and commits a
// rollback-journal transaction. The captured file must contain the written page.
func VerifC02AfterModeChange() {
	ctx := context.Background()
	w, _ := verifC01Replica(1, true)
	db := w.db
	pos0 := db.Pos()
	// the primary's mode-change transaction: page 1 with read/write version 1
	p1 := rt.Bytes("modechange", verifP)
	verifHeaderPage(p1, 1, false)
	hdr := ltx.Header{PageSize: verifP, Commit: 1, MinTXID: 42, MaxTXID: 42, PreApplyChecksum: pos0.PostApplyChecksum, NodeID: 99}
	rt.Assume(w.store.ID() != 99)
	file := verifEncodeLTX(hdr, []uint32{1}, [][]byte{p1}, verifSpecChecksum([][]byte{p1}))
	rt.Check(w.store.processLTXStreamFrame(ctx, &LTXStreamFrame{Name: "db"}, bytes.NewReader(file)) == nil, "replica applies the mode-change transaction")
	// promotion (what monitorLease does on acquiring the lease): recover, then hold the lease
	rt.Check(w.store.Recover(ctx) == nil, "Recover on promotion")
	w.lease = &verifLease{}
	w.store.lease = w.lease
	pos1 := db.Pos()

	// SQLite, now in rollback-journal mode, commits a transaction that rewrites page 1
	jf, err := db.CreateJournal()
	rt.Check(err == nil, "CreateJournal on the new primary")
	jh := make([]byte, 512)
	copy(jh, SQLITE_JOURNAL_HEADER_STRING)
	rt.Check(db.WriteJournalAt(ctx, jf, jh, 0, 1) == nil, "journal header")
	dbf, err := db.OpenDatabase(ctx)
	rt.Check(err == nil, "OpenDatabase")
	np := rt.Bytes("new", verifP)
	verifHeaderPage(np, 1, false)
	rt.Check(db.WriteDatabaseAt(ctx, dbf, np, 0, 1) == nil, "page write")
	rt.Check(db.RemoveJournal(ctx) == nil, "commit by deleting the journal")
	rt.Check(len(w.exits) == 0, "no fatal exit")
	pos2 := db.Pos()
	rt.Check(pos2.TXID == pos1.TXID+1, "position advances by one")
	x, derr := verifDecodeLTX(db.LTXPath(pos2.TXID, pos2.TXID))
	rt.Check(derr == nil, "transaction file verifies")
	rt.Check(len(x.pgnos) == 1 && x.pgnos[0] == 1 && verifSamePage(x.pages[0], np), "the transaction file contains the page SQLite wrote (journal mode tracked after a replicated mode change)")
	rt.Reach("c02.modechange")
}

// VerifC02JournalBlocks: rollback-journal commits on databases whose size
// straddles the 256-page checksum blocks (shrink, growth and plain updates),
// checked against the from-scratch checksum.
func VerifC02JournalBlocks() {
	ctx := context.Background()
	w := verifNewStore(true)
	shape := rt.Choose("shape", 4+2*rt.Tier())
	n0 := []int{258, 257, 256, 300, 513, 600}[shape]
	commit := n0
	switch rt.Choose("resize", 4) {
	case 1:
		commit = n0 - 1
	case 2:
		commit = n0 + 1
	case 3:
		commit = []int{257, 256, 255, 257, 300, 300}[shape] // a shrink that leaves the last block untouched / crosses a block
		if commit == n0 {
			rt.Assume(false)
		}
	}
	img0 := verifImageBig("img0", n0, false, n0)
	w.verifOpenDB(img0, 41)
	db := w.db
	pos0 := db.Pos()
	rt.Check(pos0.PostApplyChecksum == verifSpecChecksum(img0), "C04: checksum after Open equals the from-scratch checksum")

	jf, err := db.CreateJournal()
	rt.Check(err == nil, "CreateJournal")
	rt.Check(db.WriteJournalAt(ctx, jf, verifJournalHeader(0, rt.U32("nonce"), uint32(n0)), 0, 1) == nil, "journal header")
	dbf, _ := db.OpenDatabase(ctx)
	cur := make([][]byte, commit)
	copy(cur, img0)
	p1 := rt.Bytes("new", verifP)
	verifHeaderPage(p1, uint32(commit), false)
	rt.Check(db.WriteDatabaseAt(ctx, dbf, p1, 0, 1) == nil, "page 1 write")
	cur[0] = p1
	written := []int{1}
	for p := n0 + 1; p <= commit; p++ { // growth: new pages are written
		d := rt.Bytes("grown", verifP)
		rt.Check(db.WriteDatabaseAt(ctx, dbf, d, int64(p-1)*verifP, 1) == nil, "new page write")
		cur[p-1] = d
		written = append(written, p)
	}
	if rt.Choose("touch.last", 2) == 1 && commit <= n0 && commit > 1 { // optionally also rewrite the new last page
		d := rt.Bytes("last", verifP)
		rt.Check(db.WriteDatabaseAt(ctx, dbf, d, int64(commit-1)*verifP, 1) == nil, "last page write")
		cur[commit-1] = d
		written = append(written, commit)
	}
	rt.Check(db.RemoveJournal(ctx) == nil, "commit")
	rt.Check(len(w.exits) == 0, "no fatal exit")
	if commit < n0 {
		rt.Check(db.TruncateDatabase(ctx, int64(commit)*verifP) == nil, "truncate to the committed size")
	}
	pos1 := db.Pos()
	rt.Check(pos1.TXID == 42, "position advances by one")
	x, derr := verifDecodeLTX(db.LTXPath(42, 42))
	rt.Check(derr == nil && x.hdr.Commit == uint32(commit) && x.hdr.PreApplyChecksum == pos0.PostApplyChecksum, "transaction file header")
	rt.Check(len(x.pgnos) == len(written), "page set = written pages")
	for i, p := range written {
		if i < len(x.pgnos) {
			rt.Check(x.pgnos[i] == uint32(p) && verifSamePage(x.pages[i], cur[p-1]), "page set in order with the written bytes")
		}
	}
	spec := verifSpecChecksum(cur)
	rt.Check(x.trailer.PostApplyChecksum == spec, "C04: post-apply checksum equals the from-scratch checksum across checksum-block boundaries")
	rt.Check(pos1.PostApplyChecksum == spec, "C04: reported checksum equals the from-scratch checksum across checksum-block boundaries")
	verifC01CheckImage(w, cur, "image after the commit")
	rt.Reach("c02.blocks")
}

// verifSpecChecksumSkip is the from-scratch checksum with the lock page left out.
func verifSpecChecksumSkip(img [][]byte, lock uint32) ltx.Checksum {
	var x ltx.Checksum
	for i, p := range img {
		if uint32(i+1) == lock {
			continue
		}
		x ^= ltx.ChecksumPage(uint32(i+1), p)
	}
	return ltx.ChecksumFlag | x
}

// VerifC02LockPage: the SQLite lock page is never captured and never counted.
// The lock page number is generalised to a small page by stubbing ltx.LockPgno
// (the real one is page 2 097 153 at 512 bytes), for both journal and WAL commits.
func VerifC02LockPage() {
	ctx := context.Background()
	lock := uint32(2 + rt.Choose("lock.page", 2))
	rt.Stub("github.com/superfly/ltx.LockPgno", func(uint32) uint32 { return lock })
	wal := rt.Choose("wal.mode", 2) == 1
	w := verifNewStore(true)
	n0 := 3
	img0 := verifImage("img0", n0, wal)
	w.verifOpenDB(img0, 41)
	db := w.db
	pos0 := db.Pos()
	rt.Check(pos0.PostApplyChecksum == verifSpecChecksumSkip(img0, lock), "C04: the lock page is not part of the checksum after Open")
	cur := [][]byte{img0[0], img0[1], img0[2]}
	commit := n0 + rt.Choose("grow", 2)
	p1 := rt.Bytes("new", verifP)
	verifHeaderPage(p1, uint32(commit), wal)
	writes := map[int][]byte{1: p1, int(lock): rt.Bytes("lockpage", verifP)}
	if commit > n0 {
		writes[commit] = rt.Bytes("grown", verifP)
		cur = append(cur, nil)
	}
	if !wal {
		jf, err := db.CreateJournal()
		rt.Check(err == nil, "CreateJournal")
		rt.Check(db.WriteJournalAt(ctx, jf, verifJournalHeader(0, 1, uint32(n0)), 0, 1) == nil, "journal header")
		dbf, _ := db.OpenDatabase(ctx)
		for p := 1; p <= commit; p++ {
			if d, ok := writes[p]; ok {
				rt.Check(db.WriteDatabaseAt(ctx, dbf, d, int64(p-1)*verifP, 1) == nil, "page write")
				cur[p-1] = d
			}
		}
		rt.Check(db.RemoveJournal(ctx) == nil, "commit")
	} else {
		m := &verifWALModel{salt1: rt.U32("s1"), salt2: rt.U32("s2"), overlay: map[uint32][]byte{}, pageN: uint32(n0)}
		m.verifStartWAL(ctx, w, true)
		ok, _ := db.TryLocks(ctx, 1, []LockType{LockTypeWrite})
		rt.Check(ok, "WRITE lock")
		off, c1, c2 := m.capOff, m.c1, m.c2
		m.txSize = uint32(commit)
		var pages []int
		for p := 1; p <= commit; p++ {
			if _, ok := writes[p]; ok {
				pages = append(pages, p)
			}
		}
		for i, p := range pages {
			cm := uint32(0)
			if i == len(pages)-1 {
				cm = uint32(commit)
			}
			var d []byte
			c1, c2, d = m.verifWriteFrame(ctx, db, off, uint32(p), cm, c1, c2)
			cur[p-1] = d
			off += verifFrameSize
		}
		rt.Check(db.Unlock(ctx, 1, []LockType{LockTypeWrite}) == nil, "release")
	}
	rt.Check(len(w.exits) == 0, "no fatal exit")
	pos1 := db.Pos()
	rt.Check(pos1.TXID == 42, "position advances by one")
	x, derr := verifDecodeLTX(db.LTXPath(42, 42))
	rt.Check(derr == nil, "transaction file verifies")
	for _, p := range x.pgnos {
		rt.Check(p != lock, "no page on the lock page in a transaction file")
	}
	want := 0
	for p := range writes {
		if uint32(p) != lock {
			want++
		}
	}
	rt.Check(len(x.pgnos) == want, "every other written page is captured")
	spec := verifSpecChecksumSkip(cur, lock)
	rt.Check(pos1.PostApplyChecksum == spec && x.trailer.PostApplyChecksum == spec, "C04: checksum = XOR over all pages except the lock page")
	rt.Reach("c02.lockpage")
}

// VerifC02Create: the first transaction of a database created from nothing
// (Store.CreateDB, empty file, position 0): commit, rollback before any page
// reached the file, and rollback after a cache spill wrote pages (SQLite then
// truncates the file back to zero bytes before finalising the journal). After
// a rollback the next transaction is the first one again.
func VerifC02Create() {
	ctx := context.Background()
	w := verifNewStore(true)
	db, dbf, err := w.store.CreateDB("db")
	rt.Check(err == nil && db != nil && dbf != nil, "CreateDB on a primary")
	w.db = db
	pos0 := db.Pos()
	rt.Check(pos0.TXID == 0 && db.PageN() == 0, "a new database starts at position 0 with no pages")
	scenario := rt.Choose("scenario", 3) // 0 commit, 1 rollback before spill, 2 rollback after spill
	mode := rt.Choose("journal.mode", 3)
	nonce := rt.U32("nonce")

	// one first transaction: journal, optional page writes, optional rollback truncate, finalisation
	tx := func(tag string, n int, write, rollback bool) [][]byte {
		jf, err := db.OpenJournal(ctx)
		if err != nil {
			jf, err = db.CreateJournal()
		}
		rt.Check(err == nil, "journal opened")
		rt.Check(db.WriteJournalAt(ctx, jf, verifJournalHeader(0, nonce, 0), 0, 1) == nil, "journal header (original size 0, no records)")
		img := make([][]byte, n)
		if write {
			for p := 1; p <= n; p++ {
				data := rt.Bytes(tag, verifP)
				if p == 1 {
					verifHeaderPage(data, uint32(n), false)
				}
				rt.Check(db.WriteDatabaseAt(ctx, dbf, data, int64(p-1)*verifP, 1) == nil, "page write")
				img[p-1] = data
			}
		}
		if write && rollback {
			// playback: no records to restore; the file is cut back to its original size (0)
			rt.Check(db.TruncateDatabase(ctx, 0) == nil, "rollback truncates the database file back to zero bytes")
		}
		var ferr error
		switch mode {
		case 0:
			ferr = db.RemoveJournal(ctx)
		case 1:
			ferr = db.TruncateJournal(ctx)
		case 2:
			ferr = db.WriteJournalAt(ctx, jf, make([]byte, SQLITE_JOURNAL_HEADER_SIZE), 0, 1)
		}
		rt.Check(ferr == nil, "journal finalisation succeeds")
		rt.Check(len(w.exits) == 0, "no fatal exit")
		return img
	}
	committed := func(img [][]byte) {
		pos1 := db.Pos()
		cur := w.verifReadImage()
		n := len(img)
		rt.Check(pos1.TXID == 1, "first commit: position 1")
		x, derr := verifDecodeLTX(db.LTXPath(1, 1))
		rt.Check(derr == nil && x.hdr.MinTXID == 1 && x.hdr.MaxTXID == 1 && x.hdr.PreApplyChecksum == 0 && x.hdr.Commit == uint32(n), "first transaction file: 1-1, no pre-checksum, commit size")
		rt.Check(len(x.pgnos) == n, "first transaction file holds every page")
		for i := range x.pages {
			rt.Check(x.pgnos[i] == uint32(i+1) && verifSamePage(x.pages[i], img[i]), "first transaction file page bytes")
		}
		rt.Check(len(cur) == n, "image size")
		spec := verifSpecChecksum(img)
		rt.Check(pos1.PostApplyChecksum == spec && x.trailer.PostApplyChecksum == spec, "C04: checksum of the first position equals the from-scratch checksum")
		rt.Check(db.PageN() == uint32(n), "page count")
	}

	n := 1 + rt.Choose("pages", 2)
	if scenario == 0 {
		committed(tx("new", n, true, false))
		rt.Reach("c02.create.commit")
		return
	}
	tx("rolledback", n, scenario == 2, true)
	rt.Check(db.Pos() == pos0, "a rolled-back first transaction leaves the position unchanged")
	rt.Check(len(verifLTXNames(db)) == 0, "a rolled-back first transaction creates no transaction file")
	rt.Check(len(w.verifReadImage()) == 0 && db.PageN() == 0, "a rolled-back first transaction leaves the database empty")
	rt.Check(len(db.dirtyPageSet) == 0, "dirty page set cleared")
	// the journal is invalidated in the requested way, so SQLite does not find a hot journal
	jb, jerr := os.ReadFile(db.JournalPath())
	switch mode {
	case 0:
		rt.Check(os.IsNotExist(jerr), "DELETE: journal removed")
	case 1:
		rt.Check(jerr == nil && len(jb) == 0, "TRUNCATE: journal empty")
	case 2:
		rt.Check(jerr == nil && len(jb) >= 28 && isByteSliceZero(jb[:28]), "PERSIST: journal header zeroed")
	}
	// the next transaction is the first one again
	committed(tx("second", 1+rt.Choose("pages2", 2), true, false))
	if scenario == 1 {
		rt.Reach("c02.create.rollback")
	} else {
		rt.Reach("c02.create.rollback.spilled")
	}
}
