package litefs

import (
	"bytes"
	"context"
	"os"
	"strings"

	rt "github.com/superfly/litefs/internal/verifrt"
	"github.com/superfly/ltx"
)

var verifAllLocks = []LockType{LockTypePending, LockTypeShared, LockTypeReserved,
	LockTypeWrite, LockTypeCkpt, LockTypeRecover, LockTypeRead0, LockTypeRead1, LockTypeRead2, LockTypeRead3, LockTypeRead4, LockTypeDMS}

func verifMutex(db *DB, t LockType) *RWMutex {
	switch t {
	case LockTypePending:
		return &db.pendingLock
	case LockTypeShared:
		return &db.sharedLock
	case LockTypeReserved:
		return &db.reservedLock
	case LockTypeWrite:
		return &db.writeLock
	case LockTypeCkpt:
		return &db.ckptLock
	case LockTypeRecover:
		return &db.recoverLock
	case LockTypeRead0:
		return &db.read0Lock
	case LockTypeRead1:
		return &db.read1Lock
	case LockTypeRead2:
		return &db.read2Lock
	case LockTypeRead3:
		return &db.read3Lock
	case LockTypeRead4:
		return &db.read4Lock
	default:
		return &db.dmsLock
	}
}

// VerifC11Ranges: byte range -> lock set equals the independent specification
// for all 64-bit start/end.
func VerifC11Ranges() {
	start, end := rt.U64("start"), rt.U64("end")
	var wantDB []LockType
	for _, b := range []LockType{LockTypePending, LockTypeReserved, LockTypeShared} {
		if start <= uint64(b) && uint64(b) <= end {
			wantDB = append(wantDB, b)
		}
	}
	got := ParseDatabaseLockRange(start, end)
	rt.Check(len(got) == len(wantDB), "database lock range: number of locks")
	for i := range got {
		if i < len(wantDB) {
			rt.Check(got[i] == wantDB[i], "database lock range: locks in SQLite's order")
		}
	}
	rt.Check(!ContainsLockType(got, LockTypeHalt), "the LiteFS HALT byte is never part of a database range")
	var wantSHM []LockType
	for b := uint64(120); b <= 128; b++ {
		if start <= b && b <= end {
			wantSHM = append(wantSHM, LockType(b))
		}
	}
	gs := ParseSHMLockRange(start, end)
	rt.Check(len(gs) == len(wantSHM), "SHM lock range: number of locks")
	for i := range gs {
		if i < len(wantSHM) {
			rt.Check(gs[i] == wantSHM[i], "SHM lock range: locks ascending from WRITE(120) to DMS(128)")
		}
	}
	rt.Reach("c11.ranges")
}

type verifHolder struct {
	lock LockType
	excl bool
}

// verifC11Holders lets owner 1 hold 0..2 locks in a chosen mode.
func verifC11Holders(db *DB, max int) []verifHolder {
	ctx := context.Background()
	var hs []verifHolder
	n := rt.Choose("holders", max+1)
	for i := 0; i < n; i++ {
		h := verifHolder{lock: verifAllLocks[rt.Choose("holder.lock", len(verifAllLocks))], excl: rt.Choose("holder.excl", 2) == 1}
		for _, o := range hs {
			if o.lock >= h.lock {
				rt.Assume(false) // ascending, distinct
			}
		}
		gs := db.CreateGuardSetIfNotExists(1)
		if h.excl {
			rt.Check(gs.Guard(h.lock).TryLock(), "harness: holder takes its lock")
		} else {
			rt.Check(gs.Guard(h.lock).TryRLock(), "harness: holder takes its lock")
		}
		hs = append(hs, h)
	}
	_ = ctx
	return hs
}

type verifLockSnap struct {
	sharedN [12]int
	excl    [12]*RWMutexGuard
}

func verifSnapLocks(db *DB) verifLockSnap {
	var s verifLockSnap
	for i, t := range verifAllLocks {
		m := verifMutex(db, t)
		s.sharedN[i], s.excl[i] = m.sharedN, m.excl
	}
	return s
}

// VerifC11WriteLock: LiteFS' internal write lock is all-or-nothing, is only
// granted when no application connection holds a conflicting lock, and once
// held excludes every conflicting application lock.
func VerifC11WriteLock() {
	ctx := context.Background()
	w := verifNewStore(true)
	wal := rt.Choose("wal.mode", 2) == 1
	w.verifOpenDB(verifImage("img0", 1, wal), 41)
	db := w.db
	maxH := 1
	if rt.Tier() > 0 {
		maxH = 2
	}
	hs := verifC11Holders(db, maxH)
	pre := verifSnapLocks(db)
	g1 := db.GuardSet(1)

	// oracle: which holders conflict with the internal write lock
	blocked := false
	for _, h := range hs {
		switch h.lock {
		case LockTypePending, LockTypeShared:
			if !wal || h.excl {
				blocked = true
			}
		case LockTypeReserved:
			if !wal {
				blocked = true
			}
		case LockTypeDMS:
			if wal && h.excl {
				blocked = true
			}
		default: // WRITE, CKPT, RECOVER, READ0-4
			if wal {
				blocked = true
			}
		}
	}
	gs := db.TryAcquireWriteLock()
	rt.Check((gs != nil) == !blocked, "internal write lock granted iff no application connection holds a conflicting lock")
	if gs == nil {
		rt.Reach("c11.writelock.refused")
		post := verifSnapLocks(db)
		rt.Check(post == pre, "a refused write-lock attempt leaves every lock exactly as it was (all-or-nothing)")
		if g1 != nil {
			for _, h := range hs {
				st := g1.Guard(h.lock).State()
				rt.Check((st == RWMutexStateExclusive) == h.excl && st != RWMutexStateUnlocked, "application locks untouched")
			}
		}
		return
	}
	rt.Reach("c11.writelock.granted")
	if !wal {
		rt.Check(gs.pending.State() == RWMutexStateExclusive && gs.shared.State() == RWMutexStateExclusive && gs.reserved.State() == RWMutexStateExclusive,
			"rollback mode: PENDING, SHARED and RESERVED held exclusively (what a SQLite writer holds)")
	} else {
		ex := true
		for _, t := range []LockType{LockTypeWrite, LockTypeCkpt, LockTypeRecover, LockTypeRead0, LockTypeRead1, LockTypeRead2, LockTypeRead3, LockTypeRead4} {
			if gs.Guard(t).State() != RWMutexStateExclusive {
				ex = false
			}
		}
		rt.Check(ex, "WAL mode: WRITE, CKPT, RECOVER and READ0-4 held exclusively (writer + checkpointer)")
		rt.Check(gs.shared.State() != RWMutexStateUnlocked && gs.dms.State() != RWMutexStateUnlocked, "WAL mode: SHARED and DMS held at least shared")
	}
	// while held: another connection cannot take a conflicting lock and nothing changes when it tries
	held := verifSnapLocks(db)
	t := verifAllLocks[rt.Choose("probe.lock", len(verifAllLocks))]
	wantExcl, wantShared := false, false
	switch gs.Guard(t).State() {
	case RWMutexStateUnlocked:
		wantExcl, wantShared = true, true
	case RWMutexStateShared:
		wantShared = true
	}
	for _, h := range hs { // the first application connection's lock on the same byte also counts
		if h.lock == t {
			wantExcl = false
			if h.excl {
				wantShared = false
			}
		}
	}
	if t == LockTypeCkpt && db.writeLock.State() != RWMutexStateUnlocked {
		wantExcl = false // CKPT is gated by the WRITE lock
	}
	if rt.Choose("probe.excl", 2) == 1 {
		ok, err := db.TryLocks(ctx, 2, []LockType{t})
		rt.Check(err == nil && ok == wantExcl, "exclusive attempt by an application connection succeeds only on a lock the internal writer does not hold")
		if !ok {
			rt.Check(verifSnapLocks(db) == held, "failed attempt changes nothing")
		}
		can, _ := db.CanLock(ctx, 3, []LockType{t})
		_ = can
	} else {
		ok := db.TryRLocks(ctx, 2, []LockType{t})
		rt.Check(ok == wantShared, "shared attempt by an application connection succeeds only where the internal writer holds at most a shared lock")
		if !ok {
			rt.Check(verifSnapLocks(db) == held, "failed attempt changes nothing")
		}
	}
	if g2 := db.GuardSet(2); g2 != nil {
		g2.Unlock()
	}
	gs.Unlock()
	rt.Check(verifSnapLocks(db) == pre, "releasing the internal write lock restores the application's view")
}

// VerifC11Ckpt: a checkpoint lock is never granted to one connection while
// another connection holds the WAL write lock; queries agree with attempts.
func VerifC11Ckpt() {
	ctx := context.Background()
	w := verifNewStore(true)
	w.verifOpenDB(verifImage("img0", 1, true), 41)
	db := w.db
	writer := rt.Choose("write.holder", 4) // nobody / other shared / other exclusive / the caller
	switch writer {
	case 1:
		rt.Check(db.TryRLocks(ctx, 1, []LockType{LockTypeWrite}), "harness")
	case 2:
		ok, _ := db.TryLocks(ctx, 1, []LockType{LockTypeWrite})
		rt.Check(ok, "harness")
	case 3:
		ok, _ := db.TryLocks(ctx, 2, []LockType{LockTypeWrite})
		rt.Check(ok, "harness")
	}
	ckptHeld := rt.Choose("ckpt.holder", 3) // nobody / other shared / other exclusive
	switch ckptHeld {
	case 1:
		rt.Check(db.CreateGuardSetIfNotExists(1).ckpt.TryRLock(), "harness")
	case 2:
		rt.Check(db.CreateGuardSetIfNotExists(1).ckpt.TryLock(), "harness")
	}
	pre := verifSnapLocks(db)
	can, _ := db.CanLock(ctx, 2, []LockType{LockTypeCkpt})
	rt.Check(verifSnapLocks(db) == pre, "a lock query changes nothing")
	ok, err := db.TryLocks(ctx, 2, []LockType{LockTypeCkpt})
	rt.Check(err == nil, "no error")
	want := ckptHeld == 0 && (writer == 0 || writer == 3)
	rt.Check(ok == want, "CKPT granted iff free and the WRITE lock is unlocked or exclusively the caller's")
	if ok {
		rt.Check(db.writeLock.State() == RWMutexStateUnlocked || db.GuardSet(2).write.State() == RWMutexStateExclusive, "no checkpoint lock while another connection holds the WAL write lock")
		rt.Reach("c11.ckpt.granted")
	} else {
		rt.Check(verifSnapLocks(db) == pre, "refused CKPT attempt changes nothing")
		rt.Reach("c11.ckpt.refused")
	}
	if ckptHeld == 0 && writer != 1 && writer != 2 {
		rt.Check(can == ok, "query result agrees with the attempt that follows")
	}
}

// VerifC11Internal: every change LiteFS makes to database/journal/WAL on its
// own happens while it holds the locks a SQLite writer + checkpointer would hold.
func VerifC11Internal() {
	ctx := context.Background()
	wal := rt.Choose("wal.mode", 2) == 1
	op := rt.Choose("op", 4)
	w := verifNewStore(op == 2)
	img0 := verifImage("img0", 1, wal)
	w.verifOpenDB(img0, 41)
	db := w.db
	mutations := 0
	monitor := func(o rt.FSOp) {
		if !strings.HasPrefix(o.Path, db.Path()+"/") || strings.HasPrefix(o.Path, db.LTXDir()) || o.Path == db.SHMPath() {
			return
		}
		mutations++
		heldRollback := db.pendingLock.State() == RWMutexStateExclusive && db.sharedLock.State() == RWMutexStateExclusive && db.reservedLock.State() == RWMutexStateExclusive
		heldWAL := db.writeLock.State() == RWMutexStateExclusive && db.ckptLock.State() == RWMutexStateExclusive && db.recoverLock.State() == RWMutexStateExclusive &&
			db.read0Lock.State() == RWMutexStateExclusive && db.read1Lock.State() == RWMutexStateExclusive && db.read2Lock.State() == RWMutexStateExclusive &&
			db.read3Lock.State() == RWMutexStateExclusive && db.read4Lock.State() == RWMutexStateExclusive && db.sharedLock.State() != RWMutexStateUnlocked
		rt.Check(heldRollback || heldWAL, "LiteFS changes database/journal/WAL files only while holding the full internal write lock")
	}
	p1 := rt.Bytes("new", verifP)
	verifHeaderPage(p1, 1, wal)
	switch op {
	case 0: // replica applies a streamed transaction
		hdr := ltx.Header{PageSize: verifP, Commit: 1, MinTXID: 42, MaxTXID: 42, PreApplyChecksum: db.Pos().PostApplyChecksum, NodeID: 99}
		rt.Assume(w.store.ID() != 99)
		file := verifEncodeLTX(hdr, []uint32{1}, [][]byte{p1}, verifSpecChecksum([][]byte{p1}))
		rt.OnFSMut = monitor
		rt.Check(w.store.processLTXStreamFrame(ctx, &LTXStreamFrame{Name: "db"}, bytes.NewReader(file)) == nil, "apply")
	case 1: // role-change recovery with a journal / a WAL to clean up
		if wal {
			m := &verifWALModel{salt1: rt.U32("s1"), salt2: rt.U32("s2")}
			must(os.WriteFile(db.WALPath(), m.header(), 0o666))
		} else {
			must(os.WriteFile(db.JournalPath(), verifJournalHeader(0, 1, 1), 0o666))
		}
		rt.OnFSMut = monitor
		rt.Check(db.Recover(ctx) == nil, "recover")
	case 2: // import on the primary
		rt.OnFSMut = monitor
		rt.Check(db.Import(ctx, bytes.NewReader(p1)) == nil, "import")
	case 3: // explicit checkpoint
		if !wal {
			rt.Assume(false)
		}
		m := &verifWALModel{salt1: rt.U32("s1"), salt2: rt.U32("s2")}
		must(os.WriteFile(db.WALPath(), m.header(), 0o666))
		rt.OnFSMut = monitor
		rt.Check(db.Checkpoint(ctx) == nil, "checkpoint")
	}
	rt.OnFSMut = nil
	rt.Check(mutations > 0, "harness: the operation did change files")
	for _, t := range verifAllLocks {
		rt.Check(verifMutex(db, t).State() == RWMutexStateUnlocked, "all internal locks released afterwards")
	}
	rt.Reach("c11.internal")
}

// verifProbeWriter is the destination of a snapshot/export; on every write it
// probes what other lock owners could do at that moment.
type verifProbeWriter struct {
	probe  func()
	writes int
}

func (p *verifProbeWriter) Write(b []byte) (int, error) {
	p.writes++
	p.probe()
	return len(b), nil
}

// VerifC11SnapshotExcludes: while a snapshot or export is copying pages, no
// writer - LiteFS's internal write lock, a halt, an application going
// EXCLUSIVE (rollback mode) or checkpointing (WAL mode) - can get in.
func VerifC11SnapshotExcludes() {
	ctx := context.Background()
	wal := rt.Choose("wal.mode", 2) == 1
	export := rt.Choose("export", 2) == 1
	w := verifNewStore(true)
	w.verifOpenDB(verifImage("img0", 1+rt.Choose("n0", 2), wal), 41)
	db := w.db
	probes := 0
	pw := &verifProbeWriter{}
	pw.probe = func() {
		probes++
		gs := db.TryAcquireWriteLock()
		rt.Check(gs == nil, "LiteFS's internal write lock is not available while a snapshot is copying pages")
		if gs != nil {
			gs.Unlock()
		}
		if !wal {
			// an application connection may reserve, but cannot reach EXCLUSIVE while the snapshot reads
			rt.Check(db.TryRLocks(ctx, 9, []LockType{LockTypeShared}), "another reader is admitted beside the snapshot")
			ok, _ := db.TryLocks(ctx, 9, []LockType{LockTypeReserved})
			rt.Check(ok, "an application may take RESERVED beside readers")
			ok, _ = db.TryLocks(ctx, 9, []LockType{LockTypePending})
			okx, _ := db.TryLocks(ctx, 9, []LockType{LockTypeShared})
			rt.Check(!okx, "an application cannot reach EXCLUSIVE (and so cannot change pages) while the snapshot reads")
			_ = ok
			db.GuardSet(9).Unlock()
		} else {
			// a checkpointer needs READ0 exclusively to backfill pages the snapshot may still read from the file
			ok, _ := db.TryLocks(ctx, 9, []LockType{LockTypeCkpt})
			okr, _ := db.TryLocks(ctx, 9, []LockType{LockTypeRead0})
			rt.Check(!(ok && okr), "an application cannot checkpoint (CKPT + exclusive READ0) while the snapshot reads")
			db.GuardSet(9).Unlock()
		}
	}
	var err error
	if export {
		_, err = db.Export(ctx, pw)
	} else {
		_, _, err = db.WriteSnapshotTo(ctx, pw)
	}
	rt.Check(err == nil, "undisturbed snapshot succeeds")
	rt.Check(probes > 0, "harness: the snapshot wrote through the probe")
	for _, t := range verifAllLocks {
		rt.Check(verifMutex(db, t).State() == RWMutexStateUnlocked, "all locks released afterwards")
	}
	rt.Reach("c11.snapshot.excludes")
}
