package litefs

import (
	"bytes"
	"context"

	"github.com/superfly/litefs/internal/chunk"
	rt "github.com/superfly/litefs/internal/verifrt"
	"github.com/superfly/ltx"
)

type verifByteStream struct {
	r         *bytes.Reader
	clusterID string
	closed    int
}

func (s *verifByteStream) Read(p []byte) (int, error) { return s.r.Read(p) }
func (s *verifByteStream) Close() error               { s.closed++; return nil }
func (s *verifByteStream) ClusterID() string          { return s.clusterID }

type verifReplayClient struct {
	verifClient
	stream  *verifByteStream
	streams int
	posMap  map[string]ltx.Pos
}

func (c *verifReplayClient) Stream(ctx context.Context, primaryURL string, nodeID uint64, posMap map[string]ltx.Pos, filter []string) (Stream, error) {
	c.streams++
	c.posMap = posMap
	return c.stream, nil
}

// VerifC01ReplicaStream: the replica's stream loop on a byte stream written
// with the real frame and chunk writers: transactions, high-water mark,
// heartbeat, ready, and the four ways a stream ends (end frame, handoff, clean
// EOF, cut in the middle of a transaction), for equal / unset / foreign cluster ids.
func VerifC01ReplicaStream() {
	ctx := context.Background()
	w, img0 := verifC01Replica(1, rt.Choose("wal.mode", 2) == 1)
	db := w.db
	s := w.store
	pos0 := db.Pos()
	local := []string{"", verifClusterA}[rt.Choose("local.cluster", 2)]
	s.clusterID.Store(local)
	remote := []string{verifClusterA, verifClusterB, ""}[rt.Choose("stream.cluster", 3)]

	// what the primary sends
	var buf bytes.Buffer
	want := img0
	pos := pos0
	ntx := rt.Choose("transactions", 3)
	ending := rt.Choose("ending", 4) // 0 end frame, 1 handoff, 2 clean EOF, 3 cut inside the last transaction's body
	cutAt := -1
	for i := 0; i < ntx; i++ {
		p := rt.Bytes("tx", verifP)
		verifHeaderPage(p, 1, db.Mode() == DBModeWAL)
		img := [][]byte{p}
		post := verifSpecChecksum(img)
		hdr := ltx.Header{PageSize: verifP, Commit: 1, MinTXID: pos.TXID + 1, MaxTXID: pos.TXID + 1, PreApplyChecksum: pos.PostApplyChecksum, NodeID: 99}
		file := verifEncodeLTX(hdr, []uint32{1}, img, post)
		must(WriteStreamFrame(&buf, &LTXStreamFrame{Name: "db"}))
		bodyStart := buf.Len()
		cw := chunk.NewWriter(&buf)
		_, err := cw.Write(file)
		must(err)
		must(cw.Close())
		if ending == 3 && i == ntx-1 {
			cutAt = bodyStart + 2 + len(file)/2 // inside the chunk
			break
		}
		want, pos = img, ltx.Pos{TXID: hdr.MaxTXID, PostApplyChecksum: post}
		must(WriteStreamFrame(&buf, &HWMStreamFrame{Name: "db", TXID: pos.TXID - 1}))
		must(WriteStreamFrame(&buf, &HeartbeatStreamFrame{Timestamp: 12345}))
	}
	rt.Assume(w.store.ID() != 99)
	if ending == 3 && ntx == 0 {
		rt.Assume(false)
	}
	must(WriteStreamFrame(&buf, &ReadyStreamFrame{}))
	switch ending {
	case 0:
		must(WriteStreamFrame(&buf, &EndStreamFrame{}))
	case 1:
		must(WriteStreamFrame(&buf, &HandoffStreamFrame{LeaseID: "lease-77"}))
	}
	data := buf.Bytes()
	if cutAt >= 0 {
		data = data[:cutAt]
	}
	cl := &verifReplayClient{stream: &verifByteStream{r: bytes.NewReader(data), clusterID: remote}}
	s.Client = cl

	leaseID, err := s.monitorLeaseAsReplica(ctx, PrimaryInfo{Hostname: "p", AdvertiseURL: "http://p"})
	rt.Check(cl.streams == 1 && cl.posMap["db"] == pos0, "the replica connects once and announces its current positions")
	rt.Check(cl.stream.closed == 1, "the stream is closed when the loop ends")
	_, info := s.PrimaryInfo()
	rt.Check(info == nil, "primary info is cleared when the stream ends")
	rt.Check(len(w.exits) == 0, "no fatal exit")

	mismatch := (local != "" && remote != local) || (local == "" && remote == "" && false)
	if local == "" && remote != "" {
		rt.Check(s.ClusterID() == remote, "a node without a cluster id adopts the primary's")
	}
	if mismatch {
		rt.Check(err != nil, "C08: a stream from a primary of another cluster is refused")
		rt.Check(db.Pos() == pos0, "C08: nothing is replicated from a cluster whose id differs from the stored one")
		verifC01CheckImage(w, img0, "C08: image unchanged")
		rt.Check(s.ClusterID() == local, "C08: the stored cluster id is kept")
		rt.Reach("c01.stream.foreign.cluster")
		return
	}
	rt.Check(db.Pos() == pos, "C01: the replica is at the position of the last transaction it received completely")
	verifC01CheckImage(w, want, "C01: and holds exactly that position's image")
	if pos != pos0 {
		rt.Check(db.HWM() == pos.TXID-1, "C14: the replica records the high-water mark the primary announced, not more")
	}
	switch ending {
	case 0, 2:
		rt.Check(err == nil && leaseID == "", "a clean end of stream is not an error")
	case 1:
		rt.Check(err == nil && leaseID == "lease-77", "C08: a handoff frame hands exactly the announced lease id to the caller")
	case 3:
		rt.Check(err != nil, "C18: a stream cut inside a transaction is an error, never a silently shorter transaction")
	}
	if ending != 3 {
		select {
		case <-s.ReadyCh():
		default:
			rt.Fail("the store is marked ready once the initial replication set has arrived")
		}
	}
	rt.Check(verifAllUnlocked(db), "no lock is left behind")
	rt.Reach("c01.stream.done")
}
