package litefs

import (
	"bytes"
	"context"
	"os"
	"strings"

	rt "github.com/superfly/litefs/internal/verifrt"
	"github.com/superfly/ltx"
)

// verifC05Crashed runs f with the file system set to die before its k-th
// mutating operation; it reports whether the crash happened.
func verifC05Crashed(k int, f func()) (crashed bool) {
	rt.CrashAfter = rt.FSOpCount() + k
	defer func() {
		rt.CrashAfter = -1
		if r := recover(); r != nil {
			if _, ok := r.(rt.FSCrash); ok {
				crashed = true
				return
			}
			panic(r)
		}
	}()
	f()
	return false
}

// verifC05Restart opens the database directory with fresh objects (what a
// restarted process does) and checks it against the two admissible positions.
func verifC05Restart(w *verifWorld, before, after ltx.Pos, imgBefore, imgAfter [][]byte) {
	verifC05RestartFile(w, before, after, imgBefore, imgAfter, after.TXID)
}

// verifNewestIs reports whether the transaction file (minT,maxT) exists and no
// other transaction file on disk reaches a higher transaction ID.
func verifNewestIs(db *DB, minT, maxT ltx.TXID) bool {
	found := false
	for _, name := range verifLTXNames(db) {
		lo, hi, err := ltx.ParseFilename(name)
		if err != nil {
			continue // temporary files are not transactions
		}
		if lo == minT && hi == maxT {
			found = true
		} else if hi > maxT {
			return false
		}
	}
	return found
}

// verifC05RestartFile: restart and compare with the position named by the
// newest transaction file: `after` when the file (afterMin, after.TXID) is the
// newest on disk, `before` otherwise.
func verifC05RestartFile(w *verifWorld, before, after ltx.Pos, imgBefore, imgAfter [][]byte, afterMin ltx.TXID) {
	ctx := context.Background()
	afterIsNewest := verifNewestIs(w.db, afterMin, after.TXID)
	store2 := NewStore(w.dir, true)
	store2.Exit = func(code int) { w.exits = append(w.exits, code) }
	db2 := NewDB(store2, "db", w.db.Path())
	err := db2.Open()
	rt.Check(err == nil, "restart on the same data directory succeeds")
	rt.Check(len(w.exits) == 0, "no fatal exit during restart")
	// the position named by the newest transaction file
	newest := before
	if afterIsNewest {
		newest = after
	}
	pos := db2.Pos()
	rt.Check(pos == newest, "after a crash the position is that of the newest transaction file on disk")
	want := imgBefore
	if newest == after {
		want = imgAfter
		rt.Reach("c05.after")
	} else {
		rt.Reach("c05.before")
	}
	w2 := &verifWorld{dir: w.dir, store: store2, db: db2}
	verifC01CheckImage(w2, want, "after a crash the image is exactly that position's image, never a mixture")
	if len(want) > 0 {
		rt.Check(pos.PostApplyChecksum == verifSpecChecksum(want), "C04: checksum after recovery equals the from-scratch checksum")
	} else {
		rt.Check(pos.PostApplyChecksum == ltx.ChecksumFlag, "C04: dropped database reports the empty checksum after recovery")
	}
	rt.Check(verifGone(db2.JournalPath()), "no hot journal is left for SQLite")
	if b, werr := os.ReadFile(db2.WALPath()); werr == nil {
		rt.Check(len(b) == 0, "no un-checkpointed WAL content is left for SQLite")
	}
	// the restarted node can commit again
	if len(want) > 0 {
		store2.lease = &verifLease{}
		store2.dbs["db"] = db2
		jf, err := db2.CreateJournal()
		rt.Check(err == nil, "CreateJournal after recovery")
		nonce := uint32(7)
		rt.Check(db2.WriteJournalAt(ctx, jf, verifJournalHeader(1, nonce, uint32(len(want))), 0, 1) == nil, "journal header after recovery")
		rt.Check(db2.WriteJournalAt(ctx, jf, verifJournalRecord(1, want[0], nonce), 512, 1) == nil, "journal record after recovery")
		dbf, _ := db2.OpenDatabase(ctx)
		p := rt.Bytes("next", verifP)
		verifHeaderPage(p, uint32(len(want)), db2.Mode() == DBModeWAL)
		rt.Check(db2.WriteDatabaseAt(ctx, dbf, p, 0, 1) == nil, "page write after recovery")
		rt.Check(db2.RemoveJournal(ctx) == nil, "the restarted node can commit again")
		rt.Check(db2.Pos().TXID == pos.TXID+1, "the next commit continues from the recovered position")
	}
}

const verifC05MaxOps = 40

// VerifC05Journal: the process dies at any file-system step of a
// rollback-journal transaction (SQLite's own writes and LiteFS' commit).
func VerifC05Journal() {
	ctx := context.Background()
	w, _ := verifChainN(1, 2) // 2 pages, position 42; transaction file 42 holds page 1 only
	db := w.db
	before := db.Pos()
	cur := w.verifReadImage()
	imgBefore := [][]byte{append([]byte{}, cur[0]...), append([]byte{}, cur[1]...)}
	mode := rt.Choose("journal.mode", 3)
	which := rt.Choose("pages.written", 5) // page 1 / page 2 / both / both + a new page 3 / both, shrinking to one page
	k := rt.Choose("crash.at", verifC05MaxOps)
	n := 2
	if which == 3 {
		n = 3
	}
	imgAfter := [][]byte{imgBefore[0], imgBefore[1]}
	var writes []int
	shrink := which == 4
	if shrink {
		n = 1
	}
	if which != 1 {
		p1 := rt.Bytes("new", verifP)
		// the transaction may be the one that switches the database to WAL mode (committed through the journal)
		verifHeaderPage(p1, uint32(n), rt.Choose("switch.to.wal", 2) == 1)
		imgAfter[0] = p1
		writes = append(writes, 1)
	}
	if which != 0 {
		imgAfter[1] = rt.Bytes("new2", verifP)
		writes = append(writes, 2)
	}
	if which == 3 {
		imgAfter = append(imgAfter, rt.Bytes("new3", verifP))
		writes = append(writes, 3)
	}
	nonce := rt.U32("nonce")
	crashed := verifC05Crashed(k, func() {
		// SQLite: journal with the original pages (synced), then the page writes, then finalisation
		jf, err := db.CreateJournal()
		must(err)
		nrec := 0
		for _, p := range writes {
			if p <= 2 {
				nrec++
			}
		}
		must(db.WriteJournalAt(ctx, jf, verifJournalHeader(int32(nrec), nonce, 2), 0, 1))
		off := int64(512)
		for _, p := range writes {
			if p <= 2 {
				must(db.WriteJournalAt(ctx, jf, verifJournalRecord(uint32(p), imgBefore[p-1], nonce), off, 1))
				off += 520
			}
		}
		dbf, err := db.OpenDatabase(ctx)
		must(err)
		for _, p := range writes {
			must(db.WriteDatabaseAt(ctx, dbf, imgAfter[p-1], int64(p-1)*verifP, 1))
		}
		switch mode {
		case 0:
			must(db.RemoveJournal(ctx))
		case 1:
			must(db.TruncateJournal(ctx))
		case 2:
			must(db.WriteJournalAt(ctx, jf, make([]byte, SQLITE_JOURNAL_HEADER_SIZE), 0, 1))
		}
		if shrink {
			// SQLite cuts the file once the journal is finalised
			must(db.TruncateDatabase(ctx, verifP))
		}
	})
	if shrink {
		imgAfter = imgAfter[:1] // page 2 was overwritten during the transaction and is then freed
	}
	after := ltx.Pos{TXID: before.TXID + 1, PostApplyChecksum: verifSpecChecksum(imgAfter)}
	if !crashed {
		if k != verifC05MaxOps-1 {
			rt.Assume(false) // the transaction has fewer steps than k: covered once
		}
		rt.Check(db.Pos() == after, "uninterrupted commit")
		rt.Reach("c05.journal.nocrash")
	} else {
		rt.Reach("c05.journal.crash")
	}
	verifC05Restart(w, before, after, imgBefore, imgAfter)
}

// VerifC05WAL: the process dies at any step of a WAL transaction and its capture.
func VerifC05WAL() {
	ctx := context.Background()
	var w *verifWorld
	var m *verifWALModel
	var db *DB
	var imgBefore [][]byte
	if rt.Choose("first.wal.tx.after.mode.switch", 2) == 1 {
		// the newest transaction file is the rollback-journal commit that switched the database to WAL mode
		// (it carries no WAL position); the crashing transaction is the first one in the new log
		w = verifNewStore(true)
		img0 := verifImage("img0", 2, false)
		w.verifOpenDB(img0, 41)
		db = w.db
		jf, err := db.CreateJournal()
		must(err)
		must(db.WriteJournalAt(ctx, jf, verifJournalHeader(0, 0, 2), 0, 1))
		dbf, err := db.OpenDatabase(ctx)
		must(err)
		p1 := rt.Bytes("switch", verifP)
		verifHeaderPage(p1, 2, true)
		must(db.WriteDatabaseAt(ctx, dbf, p1, 0, 1))
		must(db.RemoveJournal(ctx))
		rt.Check(db.Mode() == DBModeWAL && db.Pos().TXID == 42, "harness: mode switch committed through the journal")
		m = &verifWALModel{salt1: rt.U32("wal.salt1"), salt2: rt.U32("wal.salt2"), overlay: map[uint32][]byte{}, pageN: 2}
		m.verifStartWAL(ctx, w, true)
		_ = db.Unlock(ctx, 1, []LockType{LockTypeWrite})
		imgBefore = [][]byte{p1, img0[1]}
	} else {
		w, m = verifC03Setup(2)
		db = w.db
		m.verifStartWAL(ctx, w, true)
		m.verifC03Tx(ctx, w, 1, true)
		if !m.verifC03Release(ctx, w, "c05.wal.setup") {
			rt.Fail("harness: setup transaction not captured")
		}
		if m.pageN != 2 || m.overlay[1] == nil || m.overlay[2] != nil {
			rt.Assume(false) // setup transaction: page 1 only, size unchanged
		}
		imgBefore = [][]byte{append([]byte{}, m.overlay[1]...), append([]byte{}, w.verifReadImage()[1]...)}
	}
	before := db.Pos()
	k := rt.Choose("crash.at", verifC05MaxOps)
	var data []byte
	crashed := verifC05Crashed(k, func() {
		ok, _ := db.TryLocks(ctx, 1, []LockType{LockTypeWrite})
		if !ok {
			panic("write lock")
		}
		m.txSize = 2
		_, _, data = m.verifWriteFrame(ctx, db, m.capOff, 2, 2, m.c1, m.c2) // the crashing transaction rewrites page 2 only
		must(db.Unlock(ctx, 1, []LockType{LockTypeWrite}))
	})
	if data == nil {
		rt.Assume(false) // crash before the frame content was even chosen
	}
	imgAfter := [][]byte{imgBefore[0], data}
	after := ltx.Pos{TXID: before.TXID + 1, PostApplyChecksum: verifSpecChecksum(imgAfter)}
	if !crashed {
		if k != verifC05MaxOps-1 {
			rt.Assume(false)
		}
		rt.Check(db.Pos() == after, "uninterrupted WAL commit")
		rt.Reach("c05.wal.nocrash")
	} else {
		rt.Reach("c05.wal.crash")
	}
	verifC05Restart(w, before, after, imgBefore, imgAfter)
}

// VerifC05Apply: a replica dies at any step of applying a streamed
// transaction or snapshot, or the primary dies inside a drop.
func VerifC05Apply() {
	ctx := context.Background()
	what := rt.Choose("operation", 3) // 0 incremental apply, 1 snapshot apply, 2 drop
	w, _ := verifChainN(1, 2)         // 2 pages; transaction file 42 holds page 1 only
	db := w.db
	if what != 2 {
		w.store.lease = nil // a replica
	}
	before := db.Pos()
	cur := w.verifReadImage()
	imgBefore := [][]byte{append([]byte{}, cur[0]...), append([]byte{}, cur[1]...)}
	k := rt.Choose("crash.at", verifC05MaxOps)
	p2 := rt.Bytes("new", verifP)
	imgAfter := [][]byte{imgBefore[0], p2} // the incoming transaction rewrites page 2 only
	if what == 1 {
		p1 := rt.Bytes("snap1", verifP)
		verifHeaderPage(p1, 2, false)
		imgAfter = [][]byte{p1, p2}
	}
	after := ltx.Pos{TXID: before.TXID + 1, PostApplyChecksum: verifSpecChecksum(imgAfter)}
	if what == 1 && rt.Choose("snapshot.behind", 2) == 1 {
		after.TXID = 40 // the new primary's history is shorter than this node's (it was ahead before the failover)
	}
	var file []byte
	switch what {
	case 0:
		if rt.Choose("apply.shrinks", 2) == 1 {
			// the incoming transaction shrinks the database to one page
			p1 := rt.Bytes("shrunk1", verifP)
			verifHeaderPage(p1, 1, false)
			imgAfter = [][]byte{p1}
			after.PostApplyChecksum = verifSpecChecksum(imgAfter)
			file = verifEncodeLTX(ltx.Header{PageSize: verifP, Commit: 1, MinTXID: after.TXID, MaxTXID: after.TXID, PreApplyChecksum: before.PostApplyChecksum, NodeID: 99}, []uint32{1}, imgAfter, after.PostApplyChecksum)
			break
		}
		file = verifEncodeLTX(ltx.Header{PageSize: verifP, Commit: 2, MinTXID: after.TXID, MaxTXID: after.TXID, PreApplyChecksum: before.PostApplyChecksum, NodeID: 99}, []uint32{2}, [][]byte{p2}, after.PostApplyChecksum)
	case 1:
		file = verifEncodeLTX(ltx.Header{PageSize: verifP, Commit: 2, MinTXID: 1, MaxTXID: after.TXID, NodeID: 99}, []uint32{1, 2}, imgAfter, after.PostApplyChecksum)
	case 2:
		imgAfter = nil
		after.PostApplyChecksum = ltx.ChecksumFlag
	}
	rt.Assume(w.store.ID() != 99)
	crashed := verifC05Crashed(k, func() {
		if what == 2 {
			must(db.Drop(ctx))
			return
		}
		must(w.store.processLTXStreamFrame(ctx, &LTXStreamFrame{Name: "db"}, bytes.NewReader(file)))
	})
	if !crashed {
		if k != verifC05MaxOps-1 {
			rt.Assume(false)
		}
		rt.Check(db.Pos() == after, "uninterrupted operation")
		rt.Reach("c05.apply.nocrash")
	} else {
		rt.Reach("c05.apply.crash")
	}
	if what == 1 {
		verifC05RestartFile(w, before, after, imgBefore, imgAfter, 1) // a snapshot file is named 1-<max>
		return
	}
	verifC05Restart(w, before, after, imgBefore, imgAfter)
}

// VerifC05Recover: the process dies inside LiteFS' own checkpoint or journal
// rollback (run at role changes and halt-lock grants); both are idempotent.
func VerifC05Recover() {
	ctx := context.Background()
	k := rt.Choose("crash.at", 24)
	if rt.Choose("what", 2) == 0 {
		// WAL database with a committed, un-checkpointed transaction
		w, m := verifC03Setup(2)
		db := w.db
		m.verifStartWAL(ctx, w, true)
		m.verifC03Tx(ctx, w, 1+rt.Tier(), true)
		if !m.verifC03Release(ctx, w, "c05.ckpt.setup") {
			rt.Fail("harness: setup transaction not captured")
		}
		pos := db.Pos()
		cur := w.verifReadImage()
		img := make([][]byte, m.pageN)
		for p := uint32(1); p <= m.pageN; p++ {
			if d, ok := m.overlay[p]; ok {
				img[p-1] = append([]byte{}, d...)
			} else {
				img[p-1] = append([]byte{}, cur[p-1]...)
			}
		}
		crashed := verifC05Crashed(k, func() { must(db.Checkpoint(ctx)) })
		if !crashed && k != 23 {
			rt.Assume(false)
		}
		rt.Reach("c05.recover.checkpoint")
		verifC05Restart(w, pos, ltx.Pos{TXID: pos.TXID + 1}, img, nil)
		return
	}
	// rollback-journal database with a hot journal (SQLite transaction in flight when the role changes)
	w, _ := verifChainN(1, 2)
	db := w.db
	pos := db.Pos()
	cur := w.verifReadImage()
	img := [][]byte{append([]byte{}, cur[0]...), append([]byte{}, cur[1]...)}
	nonce := rt.U32("nonce")
	j := verifJournalHeader(2, nonce, 2)
	j = append(j, verifJournalRecord(1, img[0], nonce)...)
	j = append(j, verifJournalRecord(2, img[1], nonce)...)
	must(os.WriteFile(db.JournalPath(), j, 0o666))
	mod1 := rt.Bytes("mod1", verifP)
	verifHeaderPage(mod1, 3, false) // the in-flight transaction grew the database to 3 pages
	must(os.WriteFile(db.DatabasePath(), verifJoin([][]byte{mod1, rt.Bytes("mod2", verifP), rt.Bytes("mod3", verifP)}), 0o666))
	crashed := verifC05Crashed(k, func() { must(db.Recover(ctx)) })
	if !crashed && k != 23 {
		rt.Assume(false)
	}
	rt.Reach("c05.recover.rollback")
	verifC05Restart(w, pos, ltx.Pos{TXID: pos.TXID + 1}, img, nil)
}

// VerifC05FirstTx: the process dies at any file-system step of the very first
// transaction of a database created from nothing. After a restart the database
// is either still empty at position 0 (no transaction file) or holds exactly
// the first transaction at position 1 - never pages of an unpublished transaction.
func VerifC05FirstTx() {
	ctx := context.Background()
	w := verifNewStore(true)
	db, dbf, err := w.store.CreateDB("db")
	rt.Check(err == nil, "CreateDB")
	w.db = db
	n := 1 + rt.Choose("pages", 2)
	mode := rt.Choose("journal.mode", 3)
	k := rt.Choose("crash.at", verifC05MaxOps)
	img := make([][]byte, n)
	for i := range img {
		img[i] = rt.Bytes("first", verifP)
	}
	verifHeaderPage(img[0], uint32(n), false)
	nonce := rt.U32("nonce")
	crashed := verifC05Crashed(k, func() {
		jf, err := db.CreateJournal()
		must(err)
		// original size 0: the journal is a header and nothing else
		must(db.WriteJournalAt(ctx, jf, verifJournalHeader(0, nonce, 0), 0, 1))
		for p := 1; p <= n; p++ {
			must(db.WriteDatabaseAt(ctx, dbf, img[p-1], int64(p-1)*verifP, 1))
		}
		switch mode {
		case 0:
			must(db.RemoveJournal(ctx))
		case 1:
			must(db.TruncateJournal(ctx))
		case 2:
			must(db.WriteJournalAt(ctx, jf, make([]byte, SQLITE_JOURNAL_HEADER_SIZE), 0, 1))
		}
	})
	if !crashed {
		if k != verifC05MaxOps-1 {
			rt.Assume(false)
		}
		rt.Check(db.Pos().TXID == 1, "uninterrupted first commit")
		rt.Reach("c05.first.nocrash")
	} else {
		rt.Reach("c05.first.crash")
	}
	published := verifNewestIs(db, 1, 1)
	store2 := NewStore(w.dir, true)
	store2.Exit = func(code int) { w.exits = append(w.exits, code) }
	db2 := NewDB(store2, "db", db.Path())
	rt.Check(db2.Open() == nil, "restart on the same data directory succeeds")
	rt.Check(len(w.exits) == 0, "no fatal exit during restart")
	w2 := &verifWorld{dir: w.dir, store: store2, db: db2}
	if published {
		rt.Check(db2.Pos() == ltx.Pos{TXID: 1, PostApplyChecksum: verifSpecChecksum(img)}, "first transaction file on disk: position 1 with its checksum")
		verifC01CheckImage(w2, img, "first transaction file on disk: exactly its image")
		rt.Reach("c05.first.after")
	} else {
		rt.Check(db2.Pos().TXID == 0, "no transaction file on disk: position 0")
		cur := w2.verifReadImage()
		rt.Check(len(cur) == 0 && db2.PageN() == 0, "no transaction file on disk: the database is empty again - no page of the unpublished transaction survives")
		rt.Reach("c05.first.before")
	}
	rt.Check(verifGone(db2.JournalPath()), "no hot journal is left for SQLite")
}

// verifDurableBefore checks, on the recorded file-system operations of one
// commit, the order that makes "commit returned success" durable: the new
// transaction file is synced under its temporary name, renamed into place, its
// directory is synced - and only then does the step happen that lets the
// caller see success (publish). publish < 0 means "end of the operation".
func verifDurableBefore(log []rt.FSOp, ltxPath, ltxDir string, publish int, what string) {
	if publish < 0 {
		publish = len(log)
	}
	syncTmp, ren, syncDir := -1, -1, -1
	for i, op := range log[:publish] {
		switch {
		case op.Op == "sync" && strings.HasPrefix(op.Path, ltxPath) && op.Path != ltxPath && ren < 0:
			syncTmp = i
		case op.Op == "rename" && ren < 0 && syncTmp >= 0:
			ren = i
		case op.Op == "sync" && op.Path == ltxDir && ren >= 0 && syncDir < 0:
			syncDir = i
		}
	}
	rt.Check(syncTmp >= 0, what+": the transaction file is synced before it is renamed into place")
	rt.Check(ren > syncTmp, what+": the transaction file is renamed into place after being synced")
	rt.Check(syncDir > ren, what+": the transaction log directory is synced after the rename and before success is reported")
}

// VerifC05Durability: a transaction whose commit returned success is not lost:
// for each kind of commit, the transaction file is durable (file sync, rename,
// directory sync) before the step that reports success.
func VerifC05Durability() {
	ctx := context.Background()
	switch rt.Choose("commit.kind", 4) {
	case 0: // rollback-journal commit: success = journal invalidated
		w, _ := verifChainN(0, 1)
		db := w.db
		mode := rt.Choose("journal.mode", 3)
		jf, err := db.CreateJournal()
		must(err)
		must(db.WriteJournalAt(ctx, jf, verifJournalHeader(0, 1, 1), 0, 1))
		dbf, _ := db.OpenDatabase(ctx)
		p := rt.Bytes("new", verifP)
		verifHeaderPage(p, 1, false)
		must(db.WriteDatabaseAt(ctx, dbf, p, 0, 1))
		rt.FSLog, rt.FSLogOn = nil, true
		switch mode {
		case 0:
			must(db.RemoveJournal(ctx))
		case 1:
			must(db.TruncateJournal(ctx))
		case 2:
			must(db.WriteJournalAt(ctx, jf, make([]byte, SQLITE_JOURNAL_HEADER_SIZE), 0, 1))
		}
		rt.FSLogOn = false
		publish := -1
		for i, op := range rt.FSLog {
			if op.Path == db.JournalPath() && op.Op != "sync" && publish < 0 {
				publish = i
			}
		}
		rt.Check(publish >= 0, "harness: journal invalidated")
		verifDurableBefore(rt.FSLog, db.LTXPath(42, 42), db.LTXDir(), publish, "journal commit")
		rt.Reach("c05.durable.journal")
	case 1: // WAL commit: success = WRITE lock released (end of Unlock)
		w, m := verifC03Setup(1)
		db := w.db
		m.verifStartWAL(ctx, w, true)
		m.verifC03Tx(ctx, w, 1, true)
		rt.FSLog, rt.FSLogOn = nil, true
		must(db.Unlock(ctx, 1, []LockType{LockTypeWrite}))
		rt.FSLogOn = false
		rt.Check(db.Pos().TXID == 42, "harness: WAL transaction captured")
		verifDurableBefore(rt.FSLog, db.LTXPath(42, 42), db.LTXDir(), -1, "WAL commit")
		rt.Reach("c05.durable.wal")
	case 2: // replica apply: success = position advanced (end of the call); database pages synced too
		w, _ := verifC01Replica(1, false)
		db := w.db
		pos0 := db.Pos()
		p := rt.Bytes("new", verifP)
		verifHeaderPage(p, 1, false)
		img := [][]byte{p}
		hdr := ltx.Header{PageSize: verifP, Commit: 1, MinTXID: pos0.TXID + 1, MaxTXID: pos0.TXID + 1, PreApplyChecksum: pos0.PostApplyChecksum, NodeID: 99}
		rt.Assume(w.store.ID() != 99)
		file := verifEncodeLTX(hdr, []uint32{1}, img, verifSpecChecksum(img))
		rt.FSLog, rt.FSLogOn = nil, true
		must(w.store.processLTXStreamFrame(ctx, &LTXStreamFrame{Name: "db"}, bytes.NewReader(file)))
		rt.FSLogOn = false
		firstPage := -1
		for i, op := range rt.FSLog {
			if op.Path == db.DatabasePath() && op.Op != "sync" && firstPage < 0 {
				firstPage = i
			}
		}
		rt.Check(firstPage >= 0, "harness: pages written")
		verifDurableBefore(rt.FSLog, db.LTXPath(42, 42), db.LTXDir(), firstPage, "replica apply (before the database file is touched)")
		dbSynced := false
		for _, op := range rt.FSLog[firstPage:] {
			if op.Op == "sync" && op.Path == db.DatabasePath() {
				dbSynced = true
			}
		}
		rt.Check(dbSynced, "replica apply: the database file is synced before the new position is reported")
		rt.Reach("c05.durable.apply")
	case 3: // drop: success = files removed
		w, _ := verifChainN(0, 1)
		db := w.db
		rt.FSLog, rt.FSLogOn = nil, true
		must(db.Drop(ctx))
		rt.FSLogOn = false
		publish := -1
		for i, op := range rt.FSLog {
			if op.Path == db.DatabasePath() && op.Op == "remove" && publish < 0 {
				publish = i
			}
		}
		rt.Check(publish >= 0, "harness: database removed")
		verifDurableBefore(rt.FSLog, db.LTXPath(42, 42), db.LTXDir(), publish, "drop")
		rt.Reach("c05.durable.drop")
	}
}
