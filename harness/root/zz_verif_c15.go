package litefs

import (
	"bytes"
	"context"
	"os"

	rt "github.com/superfly/litefs/internal/verifrt"
	"github.com/superfly/ltx"
)

func verifGone(path string) bool {
	_, err := os.Stat(path)
	return os.IsNotExist(err)
}

// VerifC15Drop: dropping a database on the primary, recreating it, reopening it.
func VerifC15Drop() {
	ctx := context.Background()
	w := verifNewStore(true)
	n0 := 1 + rt.Choose("n0", 2)
	wal := rt.Choose("wal.mode", 2) == 1
	img0 := verifImage("img0", n0, wal)
	w.verifOpenDB(img0, 41)
	db := w.db
	pos0 := db.Pos()
	// leftovers SQLite may still have around
	switch rt.Choose("leftovers", 3) {
	case 1:
		must(os.WriteFile(db.JournalPath(), make([]byte, 28), 0o666))
		must(os.WriteFile(db.WALPath(), nil, 0o666))
		must(os.WriteFile(db.SHMPath(), make([]byte, 64), 0o666))
	case 2:
		// a connection is in the middle of a rollback-journal transaction: journal on disk and a modified,
		// uncommitted page already written to the database file (a cache spill)
		if wal {
			rt.Assume(false)
		}
		jf, jerr := db.CreateJournal()
		must(jerr)
		must(db.WriteJournalAt(ctx, jf, verifJournalHeader(1, 7, uint32(n0)), 0, 1))
		must(db.WriteJournalAt(ctx, jf, verifJournalRecord(1, img0[0], 7), 512, 1))
		dbf, oerr := db.OpenDatabase(ctx)
		must(oerr)
		spilled := rt.Bytes("spilled", verifP)
		verifHeaderPage(spilled, uint32(n0), false)
		must(db.WriteDatabaseAt(ctx, dbf, spilled, 0, 1))
		rt.Check(db.Pos() == pos0, "harness: the open transaction has not been committed")
	}
	if rt.Symbolic() {
		rt.FSLog, rt.FSLogOn = nil, true
	}
	err := db.Drop(ctx)
	rt.FSLogOn = false
	rt.Check(err == nil, "Drop on the primary succeeds")
	rt.Check(len(w.exits) == 0, "no fatal exit")
	pos1 := db.Pos()
	rt.Check(pos1.TXID == pos0.TXID+1 && pos1.PostApplyChecksum == ltx.ChecksumFlag, "drop advances the position by exactly one with the empty checksum")
	names := verifLTXNames(db)
	rt.Check(len(names) == 1 && names[0] == ltx.FormatFilename(42, 42), "one new transaction file")
	x, derr := verifDecodeLTX(db.LTXPath(42, 42))
	rt.Check(derr == nil, "tombstone file passes its integrity check")
	rt.Check(x.hdr.Commit == 0 && len(x.pgnos) == 0, "tombstone: commit 0 and no pages")
	rt.Check(x.hdr.MinTXID == 42 && x.hdr.MaxTXID == 42 && x.hdr.PreApplyChecksum == pos0.PostApplyChecksum, "tombstone continues the chain")
	rt.Check(x.trailer.PostApplyChecksum == ltx.ChecksumFlag, "tombstone post-apply checksum is exactly the empty checksum")
	rt.Check(verifGone(db.DatabasePath()) && verifGone(db.JournalPath()) && verifGone(db.WALPath()) && verifGone(db.SHMPath()), "database, journal, WAL and SHM files removed")
	rt.Check(db.PageN() == 0 && db.Mode() == DBModeRollback, "page count 0, rollback mode")
	rt.Check(db.wal.offset == 0 && len(db.wal.frameOffsets) == 0 && len(db.wal.chksums) == 0, "WAL state reset")
	_, dirty := w.sub.DirtySet()["db"]
	rt.Check(dirty, "drop is announced to subscribers")
	if rt.Symbolic() {
		ren, rem := -1, -1
		for i, op := range rt.FSLog {
			if op.Op == "rename" && ren < 0 {
				ren = i
			}
			if op.Op == "remove" && op.Path == db.DatabasePath() {
				rem = i
			}
		}
		rt.Check(ren >= 0 && rem > ren, "the tombstone is in place before the files are removed")
	}
	rt.Reach("c15.dropped")

	switch rt.Choose("after", 2) {
	case 0: // recreate under the same name and commit
		db2, f, err := w.store.CreateDB("db")
		rt.Check(err == nil && db2 == db, "recreating a dropped database reuses the same database (position kept)")
		jf, err := db.CreateJournal()
		rt.Check(err == nil, "CreateJournal")
		jh := make([]byte, 512)
		copy(jh, SQLITE_JOURNAL_HEADER_STRING)
		rt.Check(db.WriteJournalAt(ctx, jf, jh, 0, 1) == nil, "journal header")
		p1 := rt.Bytes("recreated", verifP)
		verifHeaderPage(p1, 1, false)
		rt.Check(db.WriteDatabaseAt(ctx, f, p1, 0, 1) == nil, "first page write")
		rt.Check(db.RemoveJournal(ctx) == nil, "commit")
		pos2 := db.Pos()
		rt.Check(pos2.TXID == 43, "recreation continues the same TXID sequence")
		y, derr := verifDecodeLTX(db.LTXPath(43, 43))
		rt.Check(derr == nil && y.hdr.PreApplyChecksum == ltx.ChecksumFlag, "first transaction after a drop chains from the empty checksum")
		rt.Check(pos2.PostApplyChecksum == verifSpecChecksum([][]byte{p1}), "C04: checksum after recreation")
		rt.Reach("c15.recreated")
	case 1: // restart: a fresh DB object opens the same directory
		db3 := NewDB(w.store, "db", db.Path())
		rt.Check(db3.Open() == nil, "reopening a dropped database succeeds")
		rt.Check(db3.Pos() == pos1, "C05: position after restart is the tombstone's")
		rt.Check(db3.PageN() == 0, "dropped database has no pages after restart")
		// a replica that joins now must be told about the drop: the restarted node can still produce the
		// (empty) snapshot of the dropped database
		var sb bytes.Buffer
		hdr, _, serr := db3.WriteSnapshotTo(ctx, &sb)
		rt.Check(serr == nil && hdr.Commit == 0 && hdr.MaxTXID == pos1.TXID, "a node restarted after the drop can still serve the dropped database's snapshot to a late joiner")
		rt.Reach("c15.reopened")
	}
}

// VerifC15DropWAL: a WAL-mode database with a committed but not yet
// checkpointed transaction is dropped; snapshots for late joiners must still be
// served (the tombstone, and after recreation the new image).
func VerifC15DropWAL() {
	ctx := context.Background()
	w, m := verifC03Setup(1 + rt.Choose("n0", 2))
	db := w.db
	m.verifStartWAL(ctx, w, true)
	m.verifC03Tx(ctx, w, 1, true)
	if !m.verifC03Release(ctx, w, "c15.wal.tx") {
		rt.Fail("harness: WAL transaction not captured")
	}
	if rt.Choose("checkpoint.first", 2) == 1 {
		rt.Check(db.Checkpoint(ctx) == nil, "checkpoint before the drop")
	}
	rt.Check(db.Drop(ctx) == nil, "Drop")
	pos1 := db.Pos()
	rt.Check(pos1.TXID == 43 && pos1.PostApplyChecksum == ltx.ChecksumFlag, "drop advances by one with the empty checksum")
	// a replica joining now needs a snapshot of the dropped database
	var buf bytes.Buffer
	hdr, trl, err := db.WriteSnapshotTo(ctx, &buf)
	rt.Check(err == nil, "a snapshot of a dropped database can be served to a late joiner")
	rt.Check(hdr.Commit == 0 && hdr.MaxTXID == 43 && trl.PostApplyChecksum == ltx.ChecksumFlag, "the snapshot is the tombstone at the drop position")
	// recreate and commit; late joiners get the new image
	db2, f, err := w.store.CreateDB("db")
	rt.Check(err == nil && db2 == db, "recreate")
	jf, err := db.CreateJournal()
	rt.Check(err == nil, "CreateJournal")
	rt.Check(db.WriteJournalAt(ctx, jf, verifJournalHeader(0, 1, 0), 0, 1) == nil, "journal header")
	p1 := rt.Bytes("recreated", verifP)
	verifHeaderPage(p1, 1, false)
	rt.Check(db.WriteDatabaseAt(ctx, f, p1, 0, 1) == nil, "page write")
	rt.Check(db.RemoveJournal(ctx) == nil, "commit")
	buf.Reset()
	hdr, trl, err = db.WriteSnapshotTo(ctx, &buf)
	rt.Check(err == nil, "a snapshot of the recreated database can be served")
	rt.Check(hdr.Commit == 1 && hdr.MaxTXID == 44 && trl.PostApplyChecksum == verifSpecChecksum([][]byte{p1}), "the snapshot is the recreated image at its position")
	rt.Check(len(w.exits) == 0, "no fatal exit")
	rt.Reach("c15.dropwal")
}

// VerifC15ReplicaDrop: a replica applies the tombstone.
func VerifC15ReplicaDrop() {
	ctx := context.Background()
	w, _ := verifC01Replica(1+rt.Choose("n0", 2), rt.Choose("wal.mode", 2) == 1)
	db := w.db
	pos0 := db.Pos()
	must(os.WriteFile(db.SHMPath(), make([]byte, 64), 0o666))
	hdr := ltx.Header{PageSize: verifP, Commit: 0, MinTXID: 42, MaxTXID: 42, PreApplyChecksum: pos0.PostApplyChecksum, NodeID: 99}
	rt.Assume(w.store.ID() != 99)
	file := verifEncodeLTX(hdr, nil, nil, ltx.ChecksumFlag)
	err := w.store.processLTXStreamFrame(ctx, &LTXStreamFrame{Name: "db"}, bytes.NewReader(file))
	rt.Check(err == nil && len(w.exits) == 0, "replica applies the tombstone")
	rt.Check(db.Pos() == ltx.Pos{TXID: 42, PostApplyChecksum: ltx.ChecksumFlag}, "replica position = (t+1, empty checksum)")
	rt.Check(verifGone(db.DatabasePath()) && verifGone(db.JournalPath()) && verifGone(db.WALPath()), "replica files removed")
	rt.Check(verifGone(db.SHMPath()), "replica shared-memory file removed")
	rt.Check(db.PageN() == 0, "replica page count 0")
	n := 0
	for _, c := range w.inv.calls {
		if c.kind == "entry" {
			n++
		}
	}
	rt.Check(n == 4, "directory entries of the database and its side files are invalidated")
	rt.Reach("c15.replica")
}
