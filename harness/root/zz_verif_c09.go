package litefs

import (
	"bytes"
	"context"
	"io"
	"os"
	"path/filepath"
	"sort"
	"time"

	rt "github.com/superfly/litefs/internal/verifrt"
	"github.com/superfly/ltx"
)

type verifBackup struct{}

func (verifBackup) URL() string { return "verif://backup" }
func (verifBackup) PosMap(ctx context.Context) (map[string]ltx.Pos, error) {
	return nil, nil
}
func (verifBackup) WriteTx(ctx context.Context, name string, r io.Reader) (ltx.TXID, error) {
	return 0, nil
}
func (verifBackup) FetchSnapshot(ctx context.Context, name string) (io.ReadCloser, error) {
	return nil, nil
}

var verifC09Names = []string{
	"0000000000000001-0000000000000001.ltx",
	"0000000000000002-0000000000000002.ltx",
	"0000000000000003-0000000000000005.ltx",
	"0000000000000006-0000000000000006.ltx.tmp",
	"0000000000000007-0000000000000007.ltx.4.tmp",
	"garbage",
	"000000000000000a-000000000000000a.ltx",
	"0000000000000008-0000000000000008.LTX",
}

// VerifC09Listing: only real transaction files are listed, sorted; temporary
// files are never mistaken for transactions; the newest file is found.
func VerifC09Listing() {
	w := verifNewStore(true)
	w.verifOpenDB(nil, 0)
	db := w.db
	var valid []string
	var maxT ltx.TXID
	maxName := ""
	for _, name := range verifC09Names {
		if rt.Choose("present", 2) == 0 {
			continue
		}
		must(os.WriteFile(filepath.Join(db.LTXDir(), name), []byte("x"), 0o666))
		if _, max, err := ltx.ParseFilename(name); err == nil {
			valid = append(valid, name)
			if max > maxT {
				maxT, maxName = max, name
			}
		}
	}
	ents, err := db.ReadLTXDir()
	rt.Check(err == nil, "ReadLTXDir succeeds")
	rt.Check(len(ents) == len(valid), "exactly the transaction files are listed (no .tmp, no garbage)")
	for i := range ents {
		if i < len(valid) {
			rt.Check(ents[i].Name() == valid[i], "listing is sorted by TXID")
		}
	}
	got, err := db.maxLTXFile(context.Background())
	rt.Check(err == nil, "maxLTXFile succeeds")
	if maxName == "" {
		rt.Check(got == "", "no transaction file: empty result")
	} else {
		rt.Check(got == filepath.Join(db.LTXDir(), maxName), "maxLTXFile returns the file with the greatest max TXID")
	}
	rt.Reach("c09.listing")
}

// VerifC09Retention: the sweep never removes the newest file, never removes a
// file the backup has not confirmed, only removes files older than the cutoff,
// and leaves a suffix of the chain.
func VerifC09Retention() {
	ctx := context.Background()
	// the sweep runs on primaries and replicas alike; a replica learns the high-water mark from the stream
	w := verifNewStore(rt.Choose("role.replica", 2) == 0)
	w.verifOpenDB(nil, 0)
	db := w.db
	k := 1 + rt.Choose("files", 3)
	if rt.Tier() > 0 {
		k = 1 + rt.Choose("files", 5)
	}
	withBackup := rt.Choose("backup", 2) == 1
	if withBackup {
		w.store.BackupClient = verifBackup{}
	}
	// the oldest file may cover several transactions (a received snapshot); the others cover one each
	span := 1 + rt.Choose("first.span", 3)
	lo, hi := make([]ltx.TXID, k), make([]ltx.TXID, k)
	next := ltx.TXID(1)
	for i := 0; i < k; i++ {
		lo[i], hi[i] = next, next
		if i == 0 {
			hi[i] = next + ltx.TXID(span) - 1
		}
		next = hi[i] + 1
	}
	hwm := ltx.TXID(rt.Choose("hwm", int(next)+1))
	db.SetHWM(hwm)
	mtimes := make([]int64, k)
	prev := int64(1 << 30)
	for i := 0; i < k; i++ {
		// files are created in TXID order, so modification times do not decrease
		mtimes[i] = rt.I64("mtime")
		rt.Assume(mtimes[i] >= prev && mtimes[i] < 1<<60)
		prev = mtimes[i]
		path := db.LTXPath(lo[i], hi[i])
		must(os.WriteFile(path, []byte("x"), 0o666))
		t := rt.MkTime(mtimes[i])
		must(os.Chtimes(path, t, t))
	}
	// other files a transaction log directory can contain at sweep time
	strays := []string{"0000000000000000-0000000000000000.ltx.tmp", ltx.FormatFilename(next, next) + ".tmp",
		ltx.FormatFilename(hi[k-1], hi[k-1]) + ".7.tmp", "zzz-garbage"}
	for _, name := range strays {
		if rt.Choose("stray.present", 2) == 1 {
			path := filepath.Join(db.LTXDir(), name)
			must(os.WriteFile(path, []byte("t"), 0o666))
			t := rt.MkTime(rt.I64("stray.mtime"))
			must(os.Chtimes(path, t, t))
		}
	}
	cut := rt.I64("cutoff")
	rt.Assume(cut >= 0 && cut < 1<<61)
	err := db.EnforceRetention(ctx, rt.MkTime(cut))
	rt.Check(err == nil, "EnforceRetention succeeds")
	kept := make([]bool, k)
	for i := 0; i < k; i++ {
		kept[i] = !verifGone(db.LTXPath(lo[i], hi[i]))
	}
	rt.Check(kept[k-1], "retention never removes the newest file")
	for i := 0; i < k; i++ {
		if !kept[i] {
			rt.Check(mtimes[i] < cut, "only files older than the cutoff are removed")
			if withBackup {
				rt.Check(hi[i] <= hwm, "a file the backup service has not confirmed (any of its transactions above the high-water mark) is never removed")
			}
			rt.Reach("c09.removed")
		}
		if i > 0 && kept[i-1] {
			rt.Check(kept[i], "what remains is a suffix of the chain (still contiguous up to the current position)")
		}
	}
	rt.Check(kept[0], "TWIN:retention never removes anything")
	rt.Reach("c09.retention")
	_ = time.Second
}

// verifCheckChain: the transaction files of db form one chain that ends at the
// database's position: every file verifies, file i+1 starts at file i's last
// TXID + 1 with a pre-checksum equal to file i's post-checksum.
func verifCheckChain(db *DB, what string) {
	names := verifLTXNames(db)
	sort.Strings(names)
	var prevMax ltx.TXID
	var prevPost ltx.Checksum
	n := 0
	for _, name := range names {
		lo, hi, err := ltx.ParseFilename(name)
		if err != nil {
			continue // not a transaction file
		}
		x, derr := verifDecodeLTX(filepath.Join(db.LTXDir(), name))
		rt.Check(derr == nil, what+": every transaction file passes its own integrity check")
		rt.Check(x.hdr.MinTXID == lo && x.hdr.MaxTXID == hi, what+": file name matches its header")
		if n > 0 {
			rt.Check(lo == prevMax+1, what+": each file starts at the previous file's last TXID plus one")
			rt.Check(x.hdr.IsSnapshot() || x.hdr.PreApplyChecksum == prevPost, what+": each file's pre-checksum equals the previous file's post-checksum")
		}
		prevMax, prevPost = hi, x.trailer.PostApplyChecksum
		n++
	}
	rt.Check(n > 0, what+": at least one transaction file")
	rt.Check(db.Pos() == ltx.Pos{TXID: prevMax, PostApplyChecksum: prevPost}, what+": the chain ends at the database's current position")
}

// VerifC09ImportBehindForwarded: an import waits for the write lock while the
// halt-lock holder forwards commits; when it finally runs it must extend the
// chain from the position reached by then.
func VerifC09ImportBehindForwarded() {
	ctx := context.Background()
	w, _ := verifChainN(1, 1) // files 42 on top of the base position 41
	db := w.db
	hl, err := db.AcquireHaltLock(ctx, 7)
	rt.Check(err == nil && hl != nil && hl.Pos == db.Pos(), "halt lock granted at the current position")
	forwarded := 0
	rt.OnTick = func() {
		if forwarded > 0 {
			return
		}
		k := 1 + rt.Choose("forwarded.commits", 2)
		for i := 0; i < k; i++ {
			pos := db.Pos()
			p := rt.Bytes("fwd", verifP)
			verifHeaderPage(p, 1, false)
			img := [][]byte{p}
			hdr := ltx.Header{PageSize: verifP, Commit: 1, MinTXID: pos.TXID + 1, MaxTXID: pos.TXID + 1, PreApplyChecksum: pos.PostApplyChecksum, NodeID: 0xAA}
			file := verifEncodeLTX(hdr, []uint32{1}, img, verifSpecChecksum(img))
			path, err := db.WriteLTXFileAt(ctx, bytes.NewReader(file))
			rt.Check(err == nil, "forwarded transaction file written")
			rt.Check(db.ApplyLTXNoLock(path, true) == nil, "forwarded transaction applied under the halt lock")
			forwarded++
		}
		db.ReleaseHaltLock(ctx, 7)
	}
	in := verifJoin(verifImage("imp", 1+rt.Choose("import.pages", 2), false))
	err = db.Import(ctx, bytes.NewReader(in))
	rt.OnTick = nil
	rt.Check(forwarded > 0, "harness: the import waited behind the halt lock")
	rt.Check(err == nil, "the import succeeds once the halt lock is released")
	rt.Check(len(w.exits) == 0, "not fatal")
	rt.Check(db.Pos().TXID == 42+ltx.TXID(forwarded)+1, "the import is one new transaction after the forwarded ones")
	verifCheckChain(db, "C09")
	rt.Reach("c09.import.behind.forwarded")
}
