package litefs

import (
	"bytes"
	"context"
	"encoding/binary"

	rt "github.com/superfly/litefs/internal/verifrt"
	"github.com/superfly/ltx"
)

// Exported byte builders and oracles for harnesses that drive the code through
// the FUSE handlers (package fuse).

const VerifP = verifP

func VerifHeaderPage(page []byte, pageN uint32, wal bool) { verifHeaderPage(page, pageN, wal) }
func VerifJournalHeader(nRec int32, nonce, dbSize uint32) []byte {
	return verifJournalHeader(nRec, nonce, dbSize)
}
func VerifJournalRecord(pgno uint32, orig []byte, nonce uint32) []byte {
	return verifJournalRecord(pgno, orig, nonce)
}
func VerifSpecChecksum(img [][]byte) ltx.Checksum { return verifSpecChecksum(img) }

// VerifWALHeader builds a WAL header and returns it with its running checksum.
func VerifWALHeader(big bool, salt1, salt2 uint32) ([]byte, uint32, uint32) {
	m := &verifWALModel{big: big, salt1: salt1, salt2: salt2}
	h := m.header()
	c1, c2 := verifWALSum(big, 0, 0, h[:24])
	return h, c1, c2
}

// VerifWALFrameHeader builds a valid frame header for data following running checksum (c1,c2).
func VerifWALFrameHeader(big bool, salt1, salt2, c1, c2, pgno, commit uint32, data []byte) ([]byte, uint32, uint32) {
	h := make([]byte, WALFrameHeaderSize)
	binary.BigEndian.PutUint32(h[0:], pgno)
	binary.BigEndian.PutUint32(h[4:], commit)
	binary.BigEndian.PutUint32(h[8:], salt1)
	binary.BigEndian.PutUint32(h[12:], salt2)
	c1, c2 = verifWALSum(big, c1, c2, h[:8])
	c1, c2 = verifWALSum(big, c1, c2, data)
	binary.BigEndian.PutUint32(h[16:], c1)
	binary.BigEndian.PutUint32(h[20:], c2)
	return h, c1, c2
}

// VerifCheckCapture: exactly one new transaction file exists after pos0, and
// applied to `before` it yields `after`; position and checksums agree with the
// from-scratch checksum. written lists the page numbers the application wrote.
func VerifCheckCapture(db *DB, pos0 ltx.Pos, before, after [][]byte, wal bool) {
	pos1 := db.Pos()
	rt.Check(pos1.TXID == pos0.TXID+1, "mount: position advances by exactly one")
	x, derr := verifDecodeLTX(db.LTXPath(pos1.TXID, pos1.TXID))
	rt.Check(derr == nil, "mount: the new transaction file passes its own integrity check")
	rt.Check(x.hdr.MinTXID == pos1.TXID && x.hdr.MaxTXID == pos1.TXID, "mount: file covers exactly the new TXID")
	rt.Check(x.hdr.PreApplyChecksum == pos0.PostApplyChecksum, "mount: pre-checksum equals the previous position's checksum")
	rt.Check(x.hdr.Commit == uint32(len(after)), "mount: commit size is the size SQLite now sees")
	img := make([][]byte, len(after))
	copy(img, before)
	last := uint32(0)
	for i, p := range x.pgnos {
		rt.Check(p > last && p <= x.hdr.Commit, "mount: pages ascending and within the new size")
		last = p
		if int(p) <= len(img) {
			img[p-1] = x.pages[i]
		}
	}
	for i := range after {
		rt.Check(img[i] != nil && verifSamePage(img[i], after[i]), "mount: previous image overwritten by the file's pages is the image SQLite now sees")
	}
	spec := verifSpecChecksum(after)
	rt.Check(x.trailer.PostApplyChecksum == spec && pos1.PostApplyChecksum == spec, "C04: mount: reported checksum equals the from-scratch checksum")
	rt.Check(db.PageN() == uint32(len(after)), "mount: page count follows the commit")
	if wal {
		rt.Check(x.hdr.WALSize > 0, "mount: WAL fields recorded for a WAL commit")
	}
}

// VerifLTXNames lists the transaction files of db.
func VerifLTXNames(db *DB) []string { return verifLTXNames(db) }

// VerifImageBytes: a valid database image of n pages (symbolic content).
func VerifImageBytes(tag string, n int, wal bool) []byte { return verifJoin(verifImage(tag, n, wal)) }

// VerifReplicaApply feeds one transaction file to the replica's stream handler.
func VerifReplicaApply(s *Store, file []byte) error {
	return s.processLTXStreamFrame(context.Background(), &LTXStreamFrame{Name: "db"}, bytes.NewReader(file))
}

// VerifEncodePage1Tx: a transaction file extending db's position that rewrites page 1 with symbolic content.
func VerifEncodePage1Tx(db *DB) ([]byte, [][]byte, ltx.Pos) {
	pos0 := db.Pos()
	n := int(db.PageN())
	p := rt.Bytes("repl", verifP)
	verifHeaderPage(p, uint32(n), db.Mode() == DBModeWAL)
	img := (&verifWorld{db: db, store: db.store}).verifReadImage()
	img[0] = p
	post := verifSpecChecksum(img)
	hdr := ltx.Header{PageSize: verifP, Commit: uint32(n), MinTXID: pos0.TXID + 1, MaxTXID: pos0.TXID + 1, PreApplyChecksum: pos0.PostApplyChecksum, NodeID: 99}
	return verifEncodeLTX(hdr, []uint32{1}, [][]byte{p}, post), img, ltx.Pos{TXID: pos0.TXID + 1, PostApplyChecksum: post}
}

// VerifInvalidations returns the invalidation calls recorded so far (world invalidator).
func VerifInvalidations(s *Store) []string {
	var out []string
	if inv, ok := s.Invalidator.(*verifInvalidator); ok {
		for _, c := range inv.calls {
			out = append(out, c.kind)
		}
	}
	return out
}

// VerifEncodeDropTx: the tombstone transaction a primary's drop produces, extending db's position.
func VerifEncodeDropTx(db *DB) []byte {
	pos0 := db.Pos()
	hdr := ltx.Header{PageSize: verifP, Commit: 0, MinTXID: pos0.TXID + 1, MaxTXID: pos0.TXID + 1, PreApplyChecksum: pos0.PostApplyChecksum, NodeID: 99}
	return verifEncodeLTX(hdr, nil, nil, ltx.ChecksumFlag)
}

// VerifSetStoreID gives the store a concrete node id.
func VerifSetStoreID(s *Store, id uint64) { s.id = id }

// VerifCommitPage1 commits one rollback-journal transaction that rewrites page 1
// (symbolic content), following SQLite's locking protocol as owner 1. ok is
// false when the locks are not available (e.g. a snapshot is reading).
func VerifCommitPage1(db *DB) (pos ltx.Pos, ok bool) {
	ctx := context.Background()
	defer func() { _ = db.Unlock(ctx, 1, []LockType{LockTypePending, LockTypeReserved, LockTypeShared}) }()
	if !db.TryRLocks(ctx, 1, []LockType{LockTypeShared}) {
		return db.Pos(), false
	}
	for _, t := range []LockType{LockTypeReserved, LockTypePending, LockTypeShared} {
		if got, _ := db.TryLocks(ctx, 1, []LockType{t}); !got {
			return db.Pos(), false
		}
	}
	n0 := db.PageN()
	jf, err := db.CreateJournal()
	must(err)
	must(db.WriteJournalAt(ctx, jf, verifJournalHeader(0, 0, n0), 0, 1))
	dbf, err := db.OpenDatabase(ctx)
	must(err)
	p := rt.Bytes("late.commit", verifP)
	verifHeaderPage(p, n0, false)
	must(db.WriteDatabaseAt(ctx, dbf, p, 0, 1))
	must(db.RemoveJournal(ctx))
	return db.Pos(), true
}

// VerifEncodeSnapshot: a snapshot-typed transaction file (min TXID 1) of a one-page image.
func VerifEncodeSnapshot(db *DB, nodeID uint64, maxTXID ltx.TXID) []byte {
	p := rt.Bytes("snap", verifP)
	verifHeaderPage(p, 1, false)
	hdr := ltx.Header{PageSize: verifP, Commit: 1, MinTXID: 1, MaxTXID: maxTXID, NodeID: nodeID}
	return verifEncodeLTX(hdr, []uint32{1}, [][]byte{p}, verifSpecChecksum([][]byte{p}))
}
