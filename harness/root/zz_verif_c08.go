package litefs

import (
	"bytes"
	"context"
	"errors"
	"time"

	rt "github.com/superfly/litefs/internal/verifrt"
	"github.com/superfly/ltx"
)

// verifScriptLease is a lease driven by a script of symbolic service replies.
type verifScriptLease struct {
	id                string
	ttl               time.Duration
	renewedAt         time.Time
	renews            int
	renewAfterExpired int
	expired           bool
	closes            int
	handoffCh         chan uint64
	maxRenews         int
	lastOutcome       int
	contAfterFail     []time.Duration // (now - renewedAt) observed each time the loop went on after a failed renewal

	demoteDuring      *Store // when set: an operator demotes the node while this renewal is in flight
	demotedAt         int    // renewal round during which the demotion was requested (0: none)
	renewsAfterDemote int
}

func (l *verifScriptLease) ID() string           { return l.id }
func (l *verifScriptLease) RenewedAt() time.Time { return l.renewedAt }
func (l *verifScriptLease) TTL() time.Duration   { return l.ttl }
func (l *verifScriptLease) Renew(ctx context.Context) error {
	l.renews++
	if l.maxRenews > 0 && l.renews > l.maxRenews {
		rt.Assume(false) // bound on the number of renewal rounds explored
	}
	if l.expired {
		l.renewAfterExpired++
	}
	if l.demotedAt != 0 {
		l.renewsAfterDemote++
	}
	if l.demoteDuring != nil && l.demotedAt == 0 && rt.Bool("demote.during.this.renewal") {
		l.demoteDuring.Demote() // arrives while the loop is not waiting in its select
		l.demotedAt = l.renews
	}
	rt.ClockAdvance(rt.I64("renew.latency") & 0x3fffffff) // the call itself takes up to ~1 s
	switch rt.Choose("renew.outcome", 3) {
	case 0:
		l.renewedAt = time.Now()
		l.lastOutcome = 0
		return nil
	case 1:
		l.expired = true
		l.lastOutcome = 1
		return ErrLeaseExpired
	}
	l.lastOutcome = 2
	return errors.New("lease service unreachable")
}
func (l *verifScriptLease) Handoff(ctx context.Context, nodeID uint64) error { return nil }
func (l *verifScriptLease) HandoffCh() <-chan uint64                         { return l.handoffCh }
func (l *verifScriptLease) Close() error                                     { l.closes++; return nil }

// verifScriptLeaser is the scripted lease service.
type verifScriptLeaser struct {
	clusterID     string
	clusterErr    error
	setClusterIDs []string
	acquires      int
	acquireResult int // 0 lease, 1 ErrPrimaryExists, 2 other error
	primaryInfo   int // 0 found, 1 ErrNoPrimary, 2 other error
	lease         *verifScriptLease
	infoCalls     int
}

func (l *verifScriptLeaser) Close() error         { return nil }
func (l *verifScriptLeaser) Type() string         { return "script" }
func (l *verifScriptLeaser) Hostname() string     { return "self" }
func (l *verifScriptLeaser) AdvertiseURL() string { return "http://self" }
func (l *verifScriptLeaser) Acquire(ctx context.Context) (Lease, error) {
	l.acquires++
	switch l.acquireResult {
	case 0:
		return l.lease, nil
	case 1:
		return nil, ErrPrimaryExists
	}
	return nil, errors.New("acquire failed")
}
func (l *verifScriptLeaser) AcquireExisting(ctx context.Context, leaseID string) (Lease, error) {
	return nil, errors.New("no handoff in this script")
}
func (l *verifScriptLeaser) PrimaryInfo(ctx context.Context) (PrimaryInfo, error) {
	l.infoCalls++
	switch l.primaryInfo {
	case 0:
		return PrimaryInfo{Hostname: "other", AdvertiseURL: "http://other"}, nil
	case 1:
		return PrimaryInfo{}, ErrNoPrimary
	}
	return PrimaryInfo{}, errors.New("lease service unreachable")
}
func (l *verifScriptLeaser) ClusterID(ctx context.Context) (string, error) {
	return l.clusterID, l.clusterErr
}
func (l *verifScriptLeaser) SetClusterID(ctx context.Context, id string) error {
	l.setClusterIDs = append(l.setClusterIDs, id)
	l.clusterID = id
	return nil
}

type verifStreamClient struct {
	verifClient
	streams   int
	clusterID string
}

func (c *verifStreamClient) Stream(ctx context.Context, primaryURL string, nodeID uint64, posMap map[string]ltx.Pos, filter []string) (Stream, error) {
	c.streams++
	return nil, errors.New("connection refused")
}

const verifClusterA = "LFSC0000000000000001"
const verifClusterB = "LFSC0000000000000002"

func verifPrimaryChClosed(s *Store) bool {
	select {
	case <-s.primaryCh:
		return true
	default:
		return false
	}
}

// VerifC08Primary: the renewal loop of a primary against every script of
// renewal outcomes, manual demotion, handoff requests and shutdown.
func VerifC08Primary() {
	rt.SelectNondet(true)
	rt.TimeoutsMayFire = false
	rt.ClockDelta = 1e6 // clock observations drift by at most 1 ms; waits advance by exactly their duration
	w := verifNewStore(false)
	s := w.store
	s.clusterID.Store(verifClusterA)
	leaser := &verifScriptLeaser{clusterID: verifClusterA}
	s.Leaser = leaser
	w.sub.handoffCh = make(chan string, 1) // the connected replica's stream handler is ready to take a handoff
	lease := &verifScriptLease{id: "lease-1", ttl: 3 * time.Second, handoffCh: make(chan uint64, 1), renewedAt: time.Now(), maxRenews: 2 + rt.Tier()}
	// a replica (node 7) is connected; a handoff may be requested for it or for an unknown node
	handoffTo := uint64(0)
	switch rt.Choose("handoff.request", 3) {
	case 1:
		handoffTo = 7
	case 2:
		handoffTo = 9
	}
	if handoffTo != 0 {
		lease.handoffCh <- handoffTo
	}
	switch rt.Choose("demote.requested", 3) {
	case 1:
		s.Demote()
		close(s.demoteCh) // a demotion requested while primary
	case 2:
		lease.demoteDuring = s // a demotion requested while a renewal is in flight
	}
	rounds := 2 + rt.Tier()
	ctx := rt.NewEnvCtx(rounds)
	var observedPrimary bool
	rt.OnTick = func() {
		if s.isPrimary() {
			observedPrimary = true
			if lease.lastOutcome == 2 {
				lease.contAfterFail = append(lease.contAfterFail, time.Since(lease.renewedAt))
			}
		}
	}
	start := time.Now()
	err := s.monitorLeaseAsPrimary(ctx, lease)
	rt.OnTick = nil
	_ = start
	// P1: on every exit the node is no longer primary and primary-scoped contexts are cancelled
	rt.Check(s.lease == nil && !s.IsPrimary(), "on exit the node no longer acts as primary")
	rt.Check(verifPrimaryChClosed(s), "on exit primary-scoped contexts are cancelled")
	handedOff := false
	select {
	case id := <-w.sub.HandoffCh():
		handedOff = true
		rt.Check(id == lease.id, "the handed-off lease id is the current lease's")
	default:
	}
	if handedOff {
		rt.Check(handoffTo == 7, "a handoff transfers the lease only to the requested, currently connected replica")
		rt.Check(lease.closes == 0, "a handed-off lease is not destroyed")
		rt.Check(err == nil, "handoff exit")
		rt.Check(lease.renews >= 1 && lease.lastOutcome == 0, "the lease is renewed successfully right before it is handed off")
		rt.Reach("c08.handoff")
	} else {
		rt.Check(lease.closes == 1, "the lease is destroyed exactly once when the node stops being primary (unless handed off)")
	}
	// a manual demotion is honoured whenever it arrives: at the latest the loop's next wait notices it
	if lease.demotedAt != 0 {
		rt.Check(lease.renewsAfterDemote == 0, "after a manual demotion no further renewal round is started: the node steps down")
		rt.Reach("c08.demoted.during.renewal")
	}
	// P2: a renewal that reports the lease gone ends the primary role at once
	rt.Check(lease.renewAfterExpired == 0, "no further renewal round after the service reported the lease expired")
	if lease.expired {
		rt.Check(err == ErrLeaseExpired, "lease reported gone: exit with ErrLeaseExpired")
		rt.Reach("c08.expired")
	}
	// P3: the node goes on after a failed renewal only while a full TTL has not passed
	for _, d := range lease.contAfterFail {
		rt.Check(d+time.Second <= lease.ttl+2*time.Second, "the node continues as primary after failed renewals only within the lease TTL (plus the 1 s margin and one call latency)")
	}
	if err == ErrLeaseExpired && !lease.expired {
		rt.Reach("c08.ttl.exceeded")
	}
	_ = observedPrimary
}

// VerifC08Loop: one pass through monitorLease against every combination of
// cluster IDs, candidate flag and lease-service replies.
func VerifC08Loop() {
	rt.TimeoutsMayFire = false
	rt.SelectNondet(true)
	rt.Stub("github.com/superfly/litefs.GenerateClusterID", func() string { return verifClusterA })
	w := verifNewStore(false)
	s := w.store
	s.candidate = rt.Choose("candidate", 2) == 1
	s.ReconnectDelay = time.Second
	local := []string{"", verifClusterA}[rt.Choose("local.cluster", 2)]
	s.clusterID.Store(local)
	leaser := &verifScriptLeaser{
		clusterID:     []string{"", verifClusterA, verifClusterB}[rt.Choose("leaser.cluster", 3)],
		acquireResult: rt.Choose("acquire.result", 3),
		primaryInfo:   rt.Choose("primary.info", 3),
	}
	if rt.Choose("cluster.err", 2) == 1 {
		leaser.clusterErr = errors.New("unreachable")
	}
	leaser.lease = &verifScriptLease{id: "lease-1", ttl: 10 * time.Second, handoffCh: make(chan uint64, 1), renewedAt: time.Now(), maxRenews: 1}
	s.Leaser = leaser
	cl := &verifStreamClient{}
	s.Client = cl
	becamePrimary := false
	rt.OnTick = func() {
		if s.isPrimary() {
			becamePrimary = true
		}
	}
	ctx := rt.NewEnvCtx(2)
	err := s.monitorLease(ctx)
	rt.OnTick = nil
	rt.Check(err == nil, "monitorLease ends cleanly when the store closes")
	rt.Check(s.lease == nil, "not primary after the monitor exits")
	if leaser.lease.renews > 0 || leaser.lease.closes > 0 {
		becamePrimary = true
	}
	// P4: a non-candidate never tries to acquire a free lease
	if !s.candidate {
		rt.Check(leaser.acquires == 0, "a non-candidate node never tries to acquire the lease")
		rt.Check(!becamePrimary, "a non-candidate node never becomes primary")
	}
	// P5: cluster ID mismatch: neither role is entered
	mismatch := leaser.clusterErr == nil && leaser.clusterID != "" && local != "" && leaser.clusterID != local
	if mismatch || leaser.clusterErr != nil {
		rt.Check(!becamePrimary && leaser.acquires == 0, "no node becomes primary for a cluster whose ID differs from its own")
		rt.Check(cl.streams == 0, "no node replicates from a cluster whose ID differs from its own")
		rt.Reach("c08.cluster.mismatch")
	}
	if becamePrimary {
		rt.Check(s.candidate && leaser.primaryInfo == 1 && leaser.acquireResult == 0, "primary only after the lease was actually acquired")
		rt.Check(s.ClusterID() == leaser.clusterID && s.ClusterID() != "", "a primary and its lease service agree on the cluster ID")
		rt.Reach("c08.became.primary")
	}
	if cl.streams > 0 {
		rt.Reach("c08.replica")
	}
}

type verifHandoffLeaser struct {
	verifScriptLeaser
	existing      *verifScriptLease
	existingCalls []string
}

func (l *verifHandoffLeaser) AcquireExisting(ctx context.Context, leaseID string) (Lease, error) {
	l.existingCalls = append(l.existingCalls, leaseID)
	if leaseID != l.existing.id {
		return nil, errors.New("unknown lease")
	}
	return l.existing, nil
}

// VerifC08HandoffReceive: a replica is handed the lease over its stream,
// becomes primary with it, and is later asked to hand it on to a connected
// replica. A lease id received through a handoff is good for one acquisition:
// after handing the lease on, the node must not take it back.
func VerifC08HandoffReceive() {
	rt.TimeoutsMayFire = false
	rt.SelectNondet(true)
	w := verifNewStore(false)
	s := w.store
	s.candidate = true
	s.ReconnectDelay = time.Second
	s.clusterID.Store(verifClusterA)
	lease := &verifScriptLease{id: "lease-77", ttl: 10 * time.Second, handoffCh: make(chan uint64, 1), renewedAt: time.Now(), maxRenews: 2}
	leaser := &verifHandoffLeaser{verifScriptLeaser: verifScriptLeaser{clusterID: verifClusterA, primaryInfo: 0, acquireResult: 1}, existing: lease}
	s.Leaser = leaser
	var buf bytes.Buffer
	must(WriteStreamFrame(&buf, &ReadyStreamFrame{}))
	must(WriteStreamFrame(&buf, &HandoffStreamFrame{LeaseID: "lease-77"}))
	cl := &verifReplayClient{stream: &verifByteStream{r: bytes.NewReader(buf.Bytes()), clusterID: verifClusterA}}
	s.Client = cl
	handOn := rt.Choose("hand.on", 2) == 1
	if handOn {
		w.sub.handoffCh = make(chan string, 1) // replica 7 is connected and ready to take the lease
		lease.handoffCh <- 7
	}
	ctx := rt.NewEnvCtx(3)
	err := s.monitorLease(ctx)
	rt.Check(err == nil, "monitorLease ends cleanly")
	rt.Check(len(leaser.existingCalls) >= 1 && leaser.existingCalls[0] == "lease-77", "the handed-off lease id is used to become primary")
	rt.Check(len(leaser.existingCalls) == 1, "a lease id received through a handoff is used for exactly one acquisition (never again after the lease was handed on, released or lost)")
	rt.Check(s.lease == nil, "not primary after the monitor exits")
	handedOn := false
	select {
	case id := <-w.sub.HandoffCh():
		handedOn = id == "lease-77"
	default:
	}
	if handedOn {
		rt.Check(lease.closes == 0, "a lease handed on is not destroyed by the node that handed it on")
		rt.Reach("c08.handoff.received.and.handed.on")
	} else {
		rt.Reach("c08.handoff.received")
	}
}
