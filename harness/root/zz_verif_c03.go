package litefs

import (
	"context"
	"encoding/binary"
	"os"
	"sort"

	rt "github.com/superfly/litefs/internal/verifrt"
	"github.com/superfly/ltx"
)

const verifFrameSize = WALFrameHeaderSize + verifP

// verifWALSum is SQLite's WAL checksum (written from the file-format description).
func verifWALSum(big bool, s0, s1 uint32, b []byte) (uint32, uint32) {
	for i := 0; i+8 <= len(b); i += 8 {
		var x, y uint32
		if big {
			x, y = binary.BigEndian.Uint32(b[i:]), binary.BigEndian.Uint32(b[i+4:])
		} else {
			x, y = binary.LittleEndian.Uint32(b[i:]), binary.LittleEndian.Uint32(b[i+4:])
		}
		s0 += x + s1
		s1 += y + s0
	}
	return s0, s1
}

// verifWALModel is the harness' own view of the WAL (the oracle).
type verifWALModel struct {
	big          bool
	salt1, salt2 uint32
	capOff       int64  // offset up to which transactions were captured
	c1, c2       uint32 // running checksum at capOff
	overlay      map[uint32][]byte
	pageN        uint32
	wf           *os.File

	txSize      uint32 // size the transaction being written will commit (0: unknown / uncommitted)
	anyValidity bool   // frames may carry a wrong salt or checksum
	wholeFrames bool   // frames are written with one write instead of header + body
}

func (m *verifWALModel) header() []byte {
	h := make([]byte, WALHeaderSize)
	magic := uint32(0x377f0682)
	if m.big {
		magic = 0x377f0683
	}
	binary.BigEndian.PutUint32(h[0:], magic)
	binary.BigEndian.PutUint32(h[4:], 3007000)
	binary.BigEndian.PutUint32(h[8:], verifP)
	binary.BigEndian.PutUint32(h[12:], rt.U32("wal.seq"))
	binary.BigEndian.PutUint32(h[16:], m.salt1)
	binary.BigEndian.PutUint32(h[20:], m.salt2)
	c1, c2 := verifWALSum(m.big, 0, 0, h[:24])
	binary.BigEndian.PutUint32(h[24:], c1)
	binary.BigEndian.PutUint32(h[28:], c2)
	return h
}

type verifFrame struct {
	pgno, commit uint32
	data         []byte
	hdr          []byte
}

// verifScan is the reference reader: the first complete committed transaction
// found after capOff, or ok=false.
func (m *verifWALModel) verifScan(wal []byte) (frames []verifFrame, end int64, c1, c2 uint32, ok bool) {
	off := m.capOff
	c1, c2 = m.c1, m.c2
	for off+verifFrameSize <= int64(len(wal)) {
		fr := wal[off : off+verifFrameSize]
		if binary.BigEndian.Uint32(fr[8:]) != m.salt1 || binary.BigEndian.Uint32(fr[12:]) != m.salt2 {
			return nil, 0, 0, 0, false
		}
		c1, c2 = verifWALSum(m.big, c1, c2, fr[:8])
		c1, c2 = verifWALSum(m.big, c1, c2, fr[24:])
		if binary.BigEndian.Uint32(fr[16:]) != c1 || binary.BigEndian.Uint32(fr[20:]) != c2 {
			return nil, 0, 0, 0, false
		}
		f := verifFrame{pgno: binary.BigEndian.Uint32(fr[0:]), commit: binary.BigEndian.Uint32(fr[4:]), data: fr[24:]}
		frames = append(frames, f)
		off += verifFrameSize
		if f.commit != 0 {
			return frames, off, c1, c2, true
		}
	}
	return nil, 0, 0, 0, false
}

// verifWriteFrame appends one frame at off with symbolic validity.
func (m *verifWALModel) verifWriteFrame(ctx context.Context, db *DB, off int64, pgno, commit uint32, c1, c2 uint32) (uint32, uint32, []byte) {
	data := rt.Bytes("frame", verifP)
	if pgno == 1 {
		size := m.txSize
		if size == 0 {
			size = m.pageN
		}
		verifHeaderPage(data, size, true) // page 1 is a database header for the size being committed
	}
	validity := 0
	if m.anyValidity {
		validity = rt.Choose("frame.validity", 3) // valid / other salt / other checksum
	}
	h := make([]byte, WALFrameHeaderSize)
	binary.BigEndian.PutUint32(h[0:], pgno)
	binary.BigEndian.PutUint32(h[4:], commit)
	s1, s2 := m.salt1, m.salt2
	if validity == 1 {
		d := rt.U32("frame.saltdelta")
		rt.Assume(d != 0)
		s1 = m.salt1 + d // any other salt
	}
	binary.BigEndian.PutUint32(h[8:], s1)
	binary.BigEndian.PutUint32(h[12:], s2)
	c1, c2 = verifWALSum(m.big, c1, c2, h[:8])
	c1, c2 = verifWALSum(m.big, c1, c2, data)
	k1, k2 := c1, c2
	if validity == 2 {
		d := rt.U32("frame.sumdelta")
		rt.Assume(d != 0)
		k1 = c1 + d // any other checksum word
	}
	binary.BigEndian.PutUint32(h[16:], k1)
	binary.BigEndian.PutUint32(h[20:], k2)
	if !m.wholeFrames {
		rt.Check(db.WriteWALAt(ctx, m.wf, h, off, 1) == nil, "frame header write under the WRITE lock")
		rt.Check(db.WriteWALAt(ctx, m.wf, data, off+WALFrameHeaderSize, 1) == nil, "frame body write under the WRITE lock")
	} else {
		rt.Check(db.WriteWALAt(ctx, m.wf, append(append([]byte{}, h...), data...), off, 1) == nil, "whole frame write under the WRITE lock")
	}
	return c1, c2, data
}

// verifC03Release releases the WRITE lock and checks the capture against the oracle.
func (m *verifWALModel) verifC03Release(ctx context.Context, w *verifWorld, tag string) bool {
	db := w.db
	pos0 := db.Pos()
	names0 := verifLTXNames(db)
	off0 := m.capOff
	rt.Check(db.Unlock(ctx, 1, []LockType{LockTypeWrite}) == nil, "Unlock returns nil")
	rt.Check(len(w.exits) == 0, "releasing the write lock never ends in a fatal exit")
	wal, err := os.ReadFile(db.WALPath())
	rt.Check(err == nil, "wal readable")
	frames, end, c1, c2, ok := m.verifScan(wal)
	pos1 := db.Pos()
	names1 := verifLTXNames(db)
	if !ok {
		rt.Reach(tag + ".none")
		rt.Check(pos1 == pos0, "no complete committed transaction appended: position unchanged")
		rt.Check(len(names1) == len(names0), "no transaction file created")
		rt.Check(db.wal.offset == off0, "captured offset unchanged")
		return false
	}
	rt.Reach(tag + ".captured")
	commit := frames[len(frames)-1].commit
	rt.Check(pos1.TXID == pos0.TXID+1, "a complete committed transaction advances the position by exactly one")
	rt.Check(len(names1) == len(names0)+1, "one new transaction file")
	x, derr := verifDecodeLTX(db.LTXPath(pos1.TXID, pos1.TXID))
	rt.Check(derr == nil, "the new transaction file passes its own integrity check")
	rt.Check(x.hdr.MinTXID == pos1.TXID && x.hdr.MaxTXID == pos1.TXID, "file covers the new TXID")
	rt.Check(x.hdr.PreApplyChecksum == pos0.PostApplyChecksum, "pre-checksum equals the previous position's checksum")
	rt.Check(x.hdr.Commit == commit, "size from the commit frame")
	rt.Check(x.hdr.WALOffset == off0 && x.hdr.WALSize == end-off0, "WAL offset/size cover exactly the captured frames")
	rt.Check(x.hdr.WALSalt1 == m.salt1 && x.hdr.WALSalt2 == m.salt2, "WAL salts recorded")
	// expected page set: last frame per page, within the new size, ascending
	last := map[uint32][]byte{}
	for _, f := range frames {
		last[f.pgno] = f.data
	}
	var pgs []uint32
	for p := range last {
		if p <= commit {
			pgs = append(pgs, p)
		}
	}
	sort.Slice(pgs, func(i, j int) bool { return pgs[i] < pgs[j] })
	rt.Check(len(x.pgnos) == len(pgs), "page set = last frame per page, truncated pages removed")
	for i := range pgs {
		if i < len(x.pgnos) {
			rt.Check(x.pgnos[i] == pgs[i] && verifSamePage(x.pages[i], last[pgs[i]]), "page numbers ascending with the bytes of the last frame")
		}
	}
	// the oracle's view of the database after the commit
	for p, d := range last {
		if p <= commit {
			m.overlay[p] = d
		}
	}
	for p := range m.overlay {
		if p > commit {
			delete(m.overlay, p) // truncated pages are gone from the logical image
		}
	}
	m.pageN, m.capOff, m.c1, m.c2 = commit, end, c1, c2
	img := w.verifReadImage()
	var xor ltx.Checksum
	for p := uint32(1); p <= commit; p++ {
		if d, ok := m.overlay[p]; ok {
			xor ^= ltx.ChecksumPage(p, d)
		} else {
			rt.Check(int(p) <= len(img), "harness: page present in the database file")
			xor ^= ltx.ChecksumPage(p, img[p-1])
		}
	}
	spec := ltx.ChecksumFlag | xor
	rt.Check(x.trailer.PostApplyChecksum == spec, "C04: post-apply checksum equals the from-scratch checksum of database + committed frames")
	rt.Check(pos1.PostApplyChecksum == spec, "C04: reported checksum equals the from-scratch checksum")
	rt.Check(db.PageN() == commit, "page count follows the commit frame")
	rt.Check(db.wal.offset == end && db.wal.chksum1 == c1 && db.wal.chksum2 == c2, "captured offset and running checksum advanced to the end of the transaction")
	_, dirty := w.sub.DirtySet()["db"]
	rt.Check(dirty, "C01: commit marks the database dirty for subscribers")
	return true
}

// verifC03Tx writes up to maxF frames of one transaction starting at the captured offset.
func (m *verifWALModel) verifC03Tx(ctx context.Context, w *verifWorld, maxF int, mustCommit bool) {
	db := w.db
	ok, err := db.TryLocks(ctx, 1, []LockType{LockTypeWrite})
	rt.Check(ok && err == nil, "WRITE lock granted")
	nf := 1 + rt.Choose("tx.frames", maxF)
	off := m.capOff
	c1, c2 := m.c1, m.c2
	maxPg := int(m.pageN) + 1
	var written []uint32
	m.txSize = 0
	if mustCommit || rt.Choose("tx.commit", 2) == 0 {
		c := int(m.pageN) - 1 + rt.Choose("commit.delta", 3)
		if c < 1 {
			rt.Assume(false)
		}
		m.txSize = uint32(c)
	}
	for i := 0; i < nf; i++ {
		pgno := uint32(1 + rt.Choose("frame.pgno", maxPg))
		commit := uint32(0)
		if i == nf-1 {
			commit = m.txSize
		}
		c1, c2, _ = m.verifWriteFrame(ctx, db, off, pgno, commit, c1, c2)
		off += verifFrameSize
		written = append(written, pgno)
		if commit != 0 {
			// SQLite writes every page it adds to the database before committing
			for p := m.pageN + 1; p <= commit; p++ {
				have := false
				for _, q := range written {
					if q == p {
						have = true
					}
				}
				if _, in := m.overlay[p]; !have && !in {
					rt.Assume(false)
				}
			}
		}
	}
}

func verifC03Setup(n0 int) (*verifWorld, *verifWALModel) {
	w := verifNewStore(true)
	img0 := verifImage("img0", n0, true)
	w.verifOpenDB(img0, 41)
	rt.Check(w.db.Mode() == DBModeWAL, "harness: database opened in WAL mode")
	m := &verifWALModel{salt1: rt.U32("wal.salt1"), salt2: rt.U32("wal.salt2"),
		overlay: map[uint32][]byte{}, pageN: uint32(n0)}
	return w, m
}

func (m *verifWALModel) verifStartWAL(ctx context.Context, w *verifWorld, create bool) {
	db := w.db
	ok, err := db.TryLocks(ctx, 1, []LockType{LockTypeWrite})
	rt.Check(ok && err == nil, "WRITE lock granted")
	if create {
		wf, err := db.CreateWAL()
		rt.Check(err == nil, "CreateWAL")
		m.wf = wf
	}
	h := m.header()
	rt.Check(db.WriteWALAt(ctx, m.wf, h, 0, 1) == nil, "WAL header write under the WRITE lock")
	m.capOff = WALHeaderSize
	m.c1, m.c2 = binary.BigEndian.Uint32(h[24:]), binary.BigEndian.Uint32(h[28:])
	m.overlay = map[uint32][]byte{}
}

func verifC03Bounds() (maxN, maxF int) {
	if rt.Tier() > 0 {
		return 3, 3
	}
	return 2, 2
}

// VerifC03Tx1: one transaction through WriteWALAt/CommitWAL with any frame
// validity, both checksum byte orders, split or whole frame writes.
func VerifC03Tx1() {
	ctx := context.Background()
	maxN, maxF := verifC03Bounds()
	w, m := verifC03Setup(1 + rt.Choose("n0", maxN))
	m.big = rt.Choose("wal.bigendian", 2) == 1
	m.wholeFrames = rt.Choose("frame.whole", 2) == 1
	m.anyValidity = true
	m.verifStartWAL(ctx, w, true)
	m.verifC03Tx(ctx, w, maxF, false)
	m.verifC03Release(ctx, w, "c03.tx1")
}

// VerifC03Two: two transactions in a row; the second sees the first's frames
// (repeated pages, growth after shrink, ...).
func VerifC03Two() {
	ctx := context.Background()
	// thorough: the first transaction may have two frames and the second's frames any validity; sizes as quick
	maxN, maxF := 2, 2
	w, m := verifC03Setup(1 + rt.Choose("n0", maxN))
	m.verifStartWAL(ctx, w, true)
	m.verifC03Tx(ctx, w, 1+rt.Tier(), true)
	if !m.verifC03Release(ctx, w, "c03.first") {
		rt.Fail("harness: a valid committed transaction was not captured")
	}
	m.anyValidity = rt.Tier() > 0
	m.verifC03Tx(ctx, w, maxF, false)
	m.verifC03Release(ctx, w, "c03.second")
}

// VerifC03Overwrite: frames of a rolled-back transaction are later overwritten
// at the same offsets by a committed one.
func VerifC03Overwrite() {
	ctx := context.Background()
	maxN, _ := verifC03Bounds()
	n0 := 1 + rt.Choose("n0", maxN)
	w, m := verifC03Setup(n0)
	db := w.db
	m.verifStartWAL(ctx, w, true)
	nf := 1 + rt.Choose("rb.frames", 2)
	off := m.capOff
	c1, c2 := m.c1, m.c2
	for i := 0; i < nf; i++ {
		c1, c2, _ = m.verifWriteFrame(ctx, db, off, uint32(1+rt.Choose("rb.pgno", n0+1)), 0, c1, c2)
		off += verifFrameSize
	}
	pos0 := db.Pos()
	rt.Check(db.Unlock(ctx, 1, []LockType{LockTypeWrite}) == nil, "Unlock")
	rt.Check(db.Pos() == pos0 && len(verifLTXNames(db)) == 0 && len(w.exits) == 0, "uncommitted frames are not captured")
	m.verifC03Tx(ctx, w, 1, true)
	m.verifC03Release(ctx, w, "c03.overwrite")
}

// VerifC03Restart: the application checkpoints the log into the database file
// and restarts it with new salts; the next transaction is captured.
func VerifC03Restart() {
	ctx := context.Background()
	maxN, _ := verifC03Bounds()
	w, m := verifC03Setup(1 + rt.Choose("n0", maxN))
	db := w.db
	m.verifStartWAL(ctx, w, true)
	m.verifC03Tx(ctx, w, 1, true)
	if !m.verifC03Release(ctx, w, "c03.prerestart") {
		rt.Fail("harness: a valid committed transaction was not captured")
	}
	if rt.Choose("checkpoint.by", 2) == 0 {
		// application checkpoint: the checkpointer copies committed pages into the database file and cuts
		// the file to the committed size (what SQLite issues through the mount: page writes + ftruncate)
		dbf, err := db.OpenDatabase(ctx)
		rt.Check(err == nil, "OpenDatabase")
		for p, d := range m.overlay {
			if p <= m.pageN {
				rt.Check(db.WriteDatabaseAt(ctx, dbf, d, int64(p-1)*verifP, 1) == nil, "backfill write")
			}
		}
		if img := w.verifReadImage(); len(img) > int(m.pageN) {
			rt.Check(db.TruncateDatabase(ctx, int64(m.pageN)*verifP) == nil, "database truncate to the committed size")
		}
	} else {
		// LiteFS' own checkpoint (role change, halt, import) followed by SQLite recreating the log
		rt.Check(db.Checkpoint(ctx) == nil, "LiteFS checkpoint")
		wf, err := db.OpenWAL(ctx)
		rt.Check(err == nil, "OpenWAL after the checkpoint")
		m.wf = wf
	}
	// whichever way the log was emptied into the file: the file alone now is the image of the position
	{
		img := w.verifReadImage()
		rt.Check(len(img) == int(m.pageN), "C04: database file has the committed size after the checkpoint")
		chk, cerr := db.checksum(db.PageN(), nil)
		rt.Check(cerr == nil && chk == verifSpecChecksum(img) && chk == db.Pos().PostApplyChecksum, "C04: after a checkpoint the checksum cache equals the from-scratch checksum of the database file and the reported checksum")
		m.overlay = map[uint32][]byte{}
	}
	oldSalt1 := m.salt1
	m.salt1, m.salt2 = rt.U32("wal.salt1b"), rt.U32("wal.salt2b")
	rt.Assume(m.salt1 != oldSalt1)
	m.verifStartWAL(ctx, w, false)
	m.verifC03Tx(ctx, w, 1, false)
	m.verifC03Release(ctx, w, "c03.restarted")
}

// VerifC03Guards: WAL writes without the WRITE lock, or below the captured
// offset, are refused without touching the file.
func VerifC03Guards() {
	ctx := context.Background()
	w, m := verifC03Setup(1)
	db := w.db
	m.verifStartWAL(ctx, w, true)
	m.verifC03Tx(ctx, w, 1, true)
	if !m.verifC03Release(ctx, w, "c03.guard.setup") {
		return
	}
	before, _ := os.ReadFile(db.WALPath())
	what := rt.Choose("guard.case", 4)
	var err error
	switch what {
	case 0: // no WRITE lock: header
		err = db.WriteWALAt(ctx, m.wf, m.header(), 0, 2)
	case 1: // no WRITE lock: frame header
		err = db.WriteWALAt(ctx, m.wf, rt.Bytes("h", WALFrameHeaderSize), m.capOff, 2)
	case 2: // no WRITE lock: frame data
		err = db.WriteWALAt(ctx, m.wf, rt.Bytes("d", verifP), m.capOff+WALFrameHeaderSize, 2)
	case 3: // WRITE lock held but the write lies before the captured offset
		ok, _ := db.TryLocks(ctx, 1, []LockType{LockTypeWrite})
		rt.Check(ok, "WRITE lock granted")
		if rt.Choose("below.part", 2) == 0 {
			err = db.WriteWALAt(ctx, m.wf, rt.Bytes("h", WALFrameHeaderSize), WALHeaderSize, 1)
		} else {
			err = db.WriteWALAt(ctx, m.wf, rt.Bytes("d", verifP), WALHeaderSize+WALFrameHeaderSize, 1)
		}
	}
	rt.Check(err != nil, "WAL write without the WRITE lock / below the captured offset is refused")
	after, _ := os.ReadFile(db.WALPath())
	rt.Check(verifSamePage(before, after), "a refused WAL write leaves the file untouched")
	rt.Reach("c03.guards")
}
