package litefs

import (
	"bytes"
	"context"
	"encoding/binary"

	rt "github.com/superfly/litefs/internal/verifrt"
	"github.com/superfly/ltx"
)

func verifExport(db *DB) ([]byte, ltx.Pos, error) {
	var buf bytes.Buffer
	pos, err := db.Export(context.Background(), &buf)
	return buf.Bytes(), pos, err
}

// VerifC16Import: importing an image into an existing database on the primary.
func VerifC16Import() {
	ctx := context.Background()
	// existing database: rollback mode, or WAL mode with a committed transaction still in the WAL
	existing := rt.Choose("existing", 4) // 0 rollback, 1 WAL checkpointed, 2 WAL with un-checkpointed commit, 3 dropped
	var w *verifWorld
	if existing == 0 || existing == 3 {
		w = verifChainWorld(1)
		if existing == 3 {
			rt.Check(w.db.Drop(ctx) == nil, "harness: drop")
		}
	} else {
		var m *verifWALModel
		w, m = verifC03Setup(1 + rt.Choose("n0", 2))
		m.verifStartWAL(ctx, w, true)
		m.verifC03Tx(ctx, w, 1, true)
		if !m.verifC03Release(ctx, w, "c16.setup") {
			rt.Fail("harness: WAL transaction not captured")
		}
		if existing == 1 {
			rt.Check(w.db.Checkpoint(ctx) == nil, "checkpoint")
		}
	}
	db := w.db
	pos0 := db.Pos()
	before, epos, err := verifExport(db)
	if existing != 3 {
		rt.Check(err == nil && epos == pos0, "export of the current image succeeds and reports the current position")
	}
	names0 := verifTxNames(db)

	// the input
	kind := rt.Choose("input", 6) // 0 valid, 1 truncated body, 2 short header, 3 bad magic, 4 other page size, 5 header says zero pages
	n := 1 + rt.Choose("import.pages", 2)
	img := verifImage("imp", n, rt.Choose("import.wal", 2) == 1)
	in := verifJoin(img)
	switch kind {
	case 1:
		in = in[:len(in)-1-rt.Choose("cut", 2)*300]
	case 2:
		in = in[:rt.Choose("hdrlen", 3)*50]
	case 3:
		in[0] ^= 0x20
	case 4:
		// a well-formed image with 1024-byte pages
		big := make([][]byte, n)
		for i := range big {
			big[i] = rt.Bytes("imp1k", 1024)
		}
		copy(big[0], SQLITE_DATABASE_HEADER_STRING)
		binary.BigEndian.PutUint16(big[0][16:], 1024)
		big[0][18], big[0][19] = 1, 1
		binary.BigEndian.PutUint32(big[0][28:], uint32(n))
		in = verifJoin(big)
	case 5:
		// valid magic and page size, but an in-header page count of zero (a header-only or legacy file):
		// there is no image to install; whole file or just the 100-byte header
		binary.BigEndian.PutUint32(in[28:], 0)
		if rt.Choose("header.only", 2) == 1 {
			in = in[:100]
		}
	}
	err = db.Import(ctx, bytes.NewReader(in))
	after, apos, eerr := verifExport(db)
	if kind == 0 {
		rt.Reach("c16.imported")
		rt.Check(err == nil && len(w.exits) == 0, "a valid image imports")
		rt.Check(db.Pos().TXID == pos0.TXID+1, "import is one new transaction")
		// export returns the imported bytes except change counter and schema cookie
		want := append([]byte{}, in...)
		for _, off := range []int{24, 25, 26, 27, 40, 41, 42, 43} {
			want[off] = 0
		}
		rt.Check(eerr == nil && apos == db.Pos() && bytes.Equal(after, want), "export after import returns the imported bytes (change counter and schema cookie reset)")
		x, derr := verifDecodeLTX(db.LTXPath(db.Pos().TXID, db.Pos().TXID))
		rt.Check(derr == nil && x.hdr.Commit == uint32(n) && len(x.pgnos) == n && x.hdr.PreApplyChecksum == pos0.PostApplyChecksum, "import is captured as one transaction file with every page")
		var pages [][]byte
		for i := 0; i < n; i++ {
			pages = append(pages, want[i*verifP:(i+1)*verifP])
		}
		rt.Check(db.Pos().PostApplyChecksum == verifSpecChecksum(pages), "C04: checksum after import equals the from-scratch checksum")
		return
	}
	rt.Reach("c16.refused")
	rt.Check(err != nil, "an image that cannot be applied is refused")
	rt.Check(len(w.exits) == 0, "a failing import does not stop the node")
	rt.Check(db.Pos() == pos0, "a failing import leaves the position unchanged")
	names1 := verifTxNames(db)
	rt.Check(len(names1) == len(names0), "a failing import leaves the transaction log unchanged")
	if existing != 3 {
		rt.Check(eerr == nil && apos == pos0 && bytes.Equal(after, before), "a failing import leaves the database image unchanged")
	} else {
		rt.Check(verifGone(db.DatabasePath()) && db.PageN() == 0, "a failing import into a dropped database leaves it dropped")
	}
	// a later restart still works
	db2 := NewDB(w.store, "db", db.Path())
	rt.Check(db2.Open() == nil, "a failing import does not prevent a later restart")
	rt.Check(db2.Pos() == pos0, "restart after a failed import comes back at the same position")
}

// verifTxNames lists the transaction files (temporary files are not transactions).
func verifTxNames(db *DB) []string {
	var out []string
	for _, n := range verifLTXNames(db) {
		if _, _, err := ltx.ParseFilename(n); err == nil {
			out = append(out, n)
		}
	}
	return out
}
