package litefs

import (
	"bytes"
	"context"
	"errors"
	"os"
	"path/filepath"
	"sort"

	rt "github.com/superfly/litefs/internal/verifrt"
	"github.com/superfly/ltx"
)

// verifTreeDigest lists every file under the store directory with its contents.
func verifTreeDigest(dir string) map[string][]byte {
	out := map[string][]byte{}
	var walk func(d string)
	walk = func(d string) {
		ents, err := os.ReadDir(d)
		if err != nil {
			return
		}
		for _, e := range ents {
			p := filepath.Join(d, e.Name())
			if e.IsDir() {
				out[p+"/"] = nil
				walk(p)
			} else {
				b, _ := os.ReadFile(p)
				out[p] = b
			}
		}
	}
	walk(dir)
	return out
}

func verifSameTree(a, b map[string][]byte) bool {
	if len(a) != len(b) {
		return false
	}
	var keys []string
	for k := range a {
		keys = append(keys, k)
	}
	sort.Strings(keys)
	for _, k := range keys {
		v, ok := b[k]
		if !ok || !bytes.Equal(a[k], v) {
			return false
		}
	}
	return true
}

// VerifC07Replica: on a node that is neither primary nor halt-lock holder,
// every mutating entry point is refused and changes nothing.
func VerifC07Replica() {
	ctx := context.Background()
	wal := rt.Choose("wal.mode", 2) == 1
	w, _ := verifC01Replica(1+rt.Choose("n0", 2), wal)
	db := w.db
	pos0 := db.Pos()
	// replica invariant: no journal; WAL absent or empty
	if wal && rt.Choose("empty.wal", 2) == 1 {
		must(os.WriteFile(db.WALPath(), nil, 0o666))
	}
	dbf, err := db.OpenDatabase(ctx)
	rt.Check(err == nil, "a replica can open the database for reading")
	before := verifTreeDigest(w.dir)
	var opErr error
	wantReadOnly := true
	noop := false
	switch rt.Choose("op", 10) {
	case 9:
		// truncation of the database file (Setattr through the mount): any size; only the current size,
		// which changes nothing, may be accepted
		size := int64([]int{0, verifP, 2 * verifP, 3 * verifP, verifP + 100}[rt.Choose("truncate.size", 5)])
		opErr = db.TruncateDatabase(ctx, size)
		wantReadOnly = false
		noop = size == int64(db.PageN())*verifP
	case 0:
		off := int64(rt.Choose("page", 3)) * verifP
		opErr = db.WriteDatabaseAt(ctx, dbf, rt.Bytes("w", verifP), off, 1)
	case 1:
		_, opErr = db.CreateJournal()
	case 2:
		// a journal file left behind cannot exist on a replica; write through a stray handle
		f, _ := os.Create(filepath.Join(w.dir, "stray"))
		before = verifTreeDigest(w.dir)
		n := []int{28, 512, 4}[rt.Choose("journal.write.len", 3)]
		opErr = db.WriteJournalAt(ctx, f, rt.Bytes("j", n), int64(rt.Choose("journal.off", 2))*512, 1)
	case 3:
		opErr = db.RemoveJournal(ctx)
	case 4:
		opErr = db.TruncateJournal(ctx)
	case 5:
		f, _ := os.Create(filepath.Join(w.dir, "stray"))
		before = verifTreeDigest(w.dir)
		n := []int{32, 24, verifP}[rt.Choose("wal.write.len", 3)]
		opErr = db.WriteWALAt(ctx, f, rt.Bytes("wf", n), int64([]int{0, 32, 56}[rt.Choose("wal.off", 3)]), 1)
	case 6:
		opErr = db.Drop(ctx)
		wantReadOnly = false // refused with a plain error
	case 7:
		img := verifImage("imp", 1, false)
		opErr = db.Import(ctx, bytes.NewReader(verifJoin(img)))
	case 8:
		opErr = db.CommitJournal(ctx, JournalModePersist)
	}
	rt.Check(opErr != nil || noop, "a node without write authority refuses the operation")
	if wantReadOnly {
		rt.Check(errors.Is(opErr, ErrReadOnlyReplica), "refused with the read-only-replica error")
	}
	rt.Check(db.Pos() == pos0, "position unchanged")
	rt.Check(verifSameTree(before, verifTreeDigest(w.dir)), "database image, journal, WAL and transaction log unchanged")
	rt.Check(len(w.exits) == 0, "refusal is not fatal")
	rt.Check(!db.Writeable(), "harness: node has no write authority")
	rt.Reach("c07.refused")
}

// VerifC07Demoted: write authority is lost while a local transaction is in
// flight; the commit step is refused rather than published.
func VerifC07Demoted() {
	ctx := context.Background()
	w := verifNewStore(true)
	wal := rt.Choose("wal.mode", 2) == 1
	n0 := 1 + rt.Choose("n0", 2)
	img0 := verifImage("img0", n0, wal)
	w.verifOpenDB(img0, 41)
	db := w.db
	pos0 := db.Pos()
	if !wal {
		jf, err := db.CreateJournal()
		rt.Check(err == nil, "CreateJournal while primary")
		nonce := rt.U32("journal.nonce")
		rt.Check(db.WriteJournalAt(ctx, jf, verifJournalHeader(1, nonce, uint32(n0)), 0, 1) == nil, "journal header while primary")
		rt.Check(db.WriteJournalAt(ctx, jf, verifJournalRecord(1, img0[0], nonce), 512, 1) == nil, "journal record (original page 1) while primary")
		dbf, _ := db.OpenDatabase(ctx)
		p := rt.Bytes("new", verifP)
		verifHeaderPage(p, uint32(n0), false)
		rt.Check(db.WriteDatabaseAt(ctx, dbf, p, 0, 1) == nil, "page write while primary")
		// the lease is lost
		verifDemote(w.store)
		var err2 error
		switch rt.Choose("finalise", 3) {
		case 0:
			err2 = db.RemoveJournal(ctx)
		case 1:
			err2 = db.TruncateJournal(ctx)
		case 2:
			err2 = db.WriteJournalAt(ctx, jf, make([]byte, SQLITE_JOURNAL_HEADER_SIZE), 0, 1)
		}
		rt.Check(err2 != nil, "commit step after losing write authority is refused")
		rt.Check(db.Pos() == pos0, "nothing is published: position unchanged")
		rt.Check(len(verifLTXNames(db)) == 0, "nothing is published: no transaction file")
		_, jerr := os.Stat(db.JournalPath())
		rt.Check(jerr == nil, "the journal stays for the rollback done at the role change")
		rt.Reach("c07.demoted.journal")
		// the role change rolls the local transaction back
		rt.Check(w.store.Recover(ctx) == nil, "Recover at the role change")
		verifC01CheckImage(w, img0, "role-change recovery restores the image of the current position")
		return
	}
	m := &verifWALModel{salt1: rt.U32("wal.salt1"), salt2: rt.U32("wal.salt2"), overlay: map[uint32][]byte{}, pageN: uint32(n0)}
	m.verifStartWAL(ctx, w, true)
	m.verifC03Tx(ctx, w, 1, true)
	verifDemote(w.store)
	rt.Check(db.Unlock(ctx, 1, []LockType{LockTypeWrite}) == nil, "Unlock")
	rt.Check(db.Pos() == pos0, "nothing is published: position unchanged")
	rt.Check(len(verifLTXNames(db)) == 0 || verifLTXNames(db)[0] != ltx.FormatFilename(42, 42), "nothing is published: no transaction file")
	rt.Check(len(w.exits) == 1 && w.exits[0] == 99, "a WAL commit that lost write authority stops the node (exit 99) instead of publishing")
	rt.Reach("c07.demoted.wal")
}
