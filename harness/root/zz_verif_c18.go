package litefs

import (
	"io"
	"runtime"

	rt "github.com/superfly/litefs/internal/verifrt"
	"github.com/superfly/ltx"
)

func verifSymName(tag string, max int) string {
	n := rt.Choose(tag+".len", max+1)
	return string(rt.Bytes(tag, n))
}

// verifC18Frame builds a frame of the chosen type with symbolic field values.
func verifC18Frame(typ int) StreamFrame {
	switch typ {
	case 0:
		return &LTXStreamFrame{Size: rt.I64("ltx.size"), Name: verifSymName("ltx.name", 3)}
	case 1:
		return &ReadyStreamFrame{}
	case 2:
		return &EndStreamFrame{}
	case 3:
		return &DropDBStreamFrame{Name: verifSymName("drop.name", 3)}
	case 4:
		return &HandoffStreamFrame{LeaseID: verifSymName("handoff.lease", 3)}
	case 5:
		return &HWMStreamFrame{TXID: ltx.TXID(rt.U64("hwm.txid")), Name: verifSymName("hwm.name", 3)}
	default:
		return &HeartbeatStreamFrame{Timestamp: rt.I64("hb.ts")}
	}
}

func verifC18SameFrame(a, b StreamFrame) bool {
	switch x := a.(type) {
	case *LTXStreamFrame:
		y, ok := b.(*LTXStreamFrame)
		return ok && x.Size == y.Size && x.Name == y.Name
	case *ReadyStreamFrame:
		_, ok := b.(*ReadyStreamFrame)
		return ok
	case *EndStreamFrame:
		_, ok := b.(*EndStreamFrame)
		return ok
	case *DropDBStreamFrame:
		y, ok := b.(*DropDBStreamFrame)
		return ok && x.Name == y.Name
	case *HandoffStreamFrame:
		y, ok := b.(*HandoffStreamFrame)
		return ok && x.LeaseID == y.LeaseID
	case *HWMStreamFrame:
		y, ok := b.(*HWMStreamFrame)
		return ok && x.TXID == y.TXID && x.Name == y.Name
	case *HeartbeatStreamFrame:
		y, ok := b.(*HeartbeatStreamFrame)
		return ok && x.Timestamp == y.Timestamp
	}
	return false
}

// VerifC18FrameRoundTrip: decode(encode(f)) == f for all seven frame types and
// all field values, for every way the bytes are split across reads; every
// proper prefix is an error.
func VerifC18FrameRoundTrip() {
	typ := rt.Choose("frame.type", 7)
	f := verifC18Frame(typ)
	var w rt.Buf
	err := WriteStreamFrame(&w, f)
	rt.Check(err == nil, "WriteStreamFrame succeeds on a working writer")
	enc := w.B

	switch rt.Choose("scenario", 2) {
	case 0: // round trip under a splitting
		mode, cut := rt.ChooseSplit(len(enc))
		r := &rt.SplitReader{Data: enc, Mode: mode, Cut: cut}
		g, err := ReadStreamFrame(r)
		rt.Check(err == nil, "a complete frame decodes without error")
		rt.Check(g != nil && verifC18SameFrame(f, g), "decode(encode(f)) == f")
		rt.Check(false, "TWIN:round trip never succeeds")
		rt.Check(r.Pos == len(enc), "decoder consumes exactly the frame")
		rt.Reach("c18.frame.roundtrip")
	case 1: // every proper prefix fails
		k := rt.Choose("prefix.len", len(enc))
		r := &rt.SplitReader{Data: enc[:k], Mode: rt.Choose("split.mode", 2)}
		g, err := ReadStreamFrame(r)
		rt.Check(err != nil && g == nil, "a proper prefix of an encoding is an error, never a value")
		if k == 0 {
			rt.Check(err == io.EOF, "empty input: io.EOF")
		} else {
			rt.Check(err == io.ErrUnexpectedEOF, "truncated frame: io.ErrUnexpectedEOF")
		}
		rt.Reach("c18.frame.prefix")
	}
}

// verifC18Input builds n arbitrary input bytes whose type word is fixed by
// typ (0..6 = the seven frame types, 7 = zero, 8 = any invalid value) and whose
// length-prefix field, if the type has one and it fits, is nameN.
func verifC18Input(typ int, nameN uint32, n int) []byte {
	data := rt.Bytes("in", n)
	tw := uint32(typ + 1)
	switch typ {
	case 7:
		tw = 0
	case 8:
		tw = rt.U32("type.word")
		rt.Assume(tw > 7)
	}
	for i := 0; i < 4 && i < n; i++ {
		data[i] = byte(tw >> (24 - 8*uint(i)))
	}
	off := -1
	switch typ {
	case 0, 5: // LTX, HWM: 8-byte integer then the name length
		off = 12
	case 3, 4: // DropDB, Handoff
		off = 4
	}
	if off >= 0 {
		for i := 0; i < 4 && off+i < n; i++ {
			data[off+i] = byte(nameN >> (24 - 8*uint(i)))
		}
	}
	return data
}

// VerifC18FrameArbitrary: arbitrary bytes decode to a value or an error; no
// panic; the decoder never reads past the input. Length prefixes are at most 8
// here (VerifC18FrameAlloc covers hostile prefixes).
func VerifC18FrameArbitrary() {
	maxN := 16
	if rt.Tier() > 0 {
		maxN = 24
	}
	n := rt.Choose("in.len", maxN+1)
	typ := rt.Choose("type", 9)
	nameN := rt.U32("nameN")
	rt.Assume(nameN <= 8)
	data := verifC18Input(typ, nameN, n)
	r := &rt.SplitReader{Data: data, Mode: rt.Choose("split.mode", 2)}
	g, err := ReadStreamFrame(r)
	rt.Check((g == nil) != (err == nil), "exactly one of value and error")
	rt.Check(r.Pos <= n, "never reads past the input")
	if typ >= 7 && n >= 4 {
		rt.Check(err != nil, "unknown frame type is an error")
	}
	if err == nil {
		rt.Reach("c18.arb.value")
		// re-encoding the decoded value gives the consumed bytes back
		var w rt.Buf
		rt.Check(WriteStreamFrame(&w, g) == nil, "re-encode")
		rt.Check(len(w.B) == r.Pos, "re-encoded length equals bytes consumed")
		same := true
		for i := range w.B {
			if w.B[i] != data[i] {
				same = false
			}
		}
		rt.Check(same, "encode(decode(bytes)) == bytes consumed (no silently different value)")
	} else {
		rt.Reach("c18.arb.error")
	}
}

// VerifC18FrameAlloc: memory use in proportion to the bytes received, for a
// hostile length prefix (> 1 MiB) in each of the four length-prefixed frame
// types. Every make() with a non-constant or large size is checked against
// 4096 + 64 x input bytes; natively the allocation is measured.
func VerifC18FrameAlloc() {
	n := 20
	typ := []int{0, 3, 4, 5}[rt.Choose("type", 4)]
	nameN := rt.U32("nameN")
	rt.Assume(nameN > 1<<20)
	data := verifC18Input(typ, nameN, n)
	rt.AllocLimit(func(sz int64) {
		rt.Check(sz >= 0 && sz <= 4096+64*int64(n), "allocation is in proportion to the bytes received (<= 4096 + 64 x input length)")
	})
	r := &rt.SplitReader{Data: data}
	var before, after runtime.MemStats
	if !rt.Symbolic() {
		runtime.ReadMemStats(&before)
	}
	g, err := ReadStreamFrame(r)
	rt.Check(g == nil && err == io.ErrUnexpectedEOF, "a length prefix larger than the remaining input is a truncation error")
	if !rt.Symbolic() {
		// native replay: measure what the decoder really allocated
		runtime.ReadMemStats(&after)
		rt.Check(after.TotalAlloc-before.TotalAlloc <= uint64(4096+64*n), "allocation is in proportion to the bytes received (native: TotalAlloc delta <= 4096 + 64 x input length)")
	}
	rt.Reach("c18.alloc.done")
}

// VerifC18LongNames: names and lease ids at and around the longest file name
// the mount can hold (255 bytes) and well beyond: every frame type that carries
// a name round-trips them unchanged.
func VerifC18LongNames() {
	n := []int{254, 255, 256, 1000}[rt.Choose("name.len", 4)]
	name := string(rt.Bytes("long.name", n))
	var f StreamFrame
	switch rt.Choose("frame.type", 4) {
	case 0:
		f = &LTXStreamFrame{Size: rt.I64("ltx.size"), Name: name}
	case 1:
		f = &DropDBStreamFrame{Name: name}
	case 2:
		f = &HandoffStreamFrame{LeaseID: name}
	case 3:
		f = &HWMStreamFrame{TXID: ltx.TXID(rt.U64("hwm.txid")), Name: name}
	}
	var w rt.Buf
	rt.Check(WriteStreamFrame(&w, f) == nil, "WriteStreamFrame accepts the name")
	r := &rt.SplitReader{Data: w.B, Mode: rt.Choose("split.mode", 2)}
	g, err := ReadStreamFrame(r)
	rt.Check(err == nil && g != nil && verifC18SameFrame(f, g), "a frame with a long name reads back identical")
	rt.Check(r.Pos == len(w.B), "decoder consumes exactly the frame")
	rt.Reach("c18.longnames")
}
