package litefs

import (
	"bytes"
	"context"
	"io"
	"os"
	"path/filepath"
	"sort"
	"time"

	rt "github.com/superfly/litefs/internal/verifrt"
	"github.com/superfly/ltx"
)

// verifBackupService is the file-based backup client with an uncompressed
// FetchSnapshot (the real one compresses with LZ4, which is outside every claim).
type verifBackupService struct {
	afterUpload func()
	*FileBackupClient
	writes int
}

func (b *verifBackupService) WriteTx(ctx context.Context, name string, r io.Reader) (ltx.TXID, error) {
	hwm, err := b.FileBackupClient.WriteTx(ctx, name, r)
	if err == nil {
		b.writes++ // accepted uploads
	}
	if b.afterUpload != nil {
		f := b.afterUpload
		b.afterUpload = nil
		f() // something happens on the primary after the data left and before the acknowledgement arrives
	}
	return hwm, err
}

func (b *verifBackupService) FetchSnapshot(ctx context.Context, name string) (io.ReadCloser, error) {
	dir := filepath.Join(b.path, name)
	ents, err := os.ReadDir(dir)
	if err != nil {
		return nil, err
	}
	var names []string
	for _, e := range ents {
		if filepath.Ext(e.Name()) == ".ltx" {
			names = append(names, e.Name())
		}
	}
	if len(names) == 0 {
		return nil, os.ErrNotExist
	}
	sort.Strings(names)
	var rdrs []io.Reader
	for _, n := range names {
		f, err := os.Open(filepath.Join(dir, n))
		if err != nil {
			return nil, err
		}
		rdrs = append(rdrs, f)
	}
	var buf bytes.Buffer
	if err := ltx.NewCompactor(&buf, rdrs).Compact(ctx); err != nil {
		return nil, err
	}
	return io.NopCloser(&buf), nil
}

func verifBackupFiles(dir string) []string {
	ents, _ := os.ReadDir(dir)
	var out []string
	for _, e := range ents {
		out = append(out, e.Name())
	}
	return out
}

// VerifC14Sync: one backup sync of the primary against every relative state of
// the backup service.
func VerifC14Sync() {
	ctx := context.Background()
	k := 1 + rt.Choose("local.txs", 2)
	w, chain := verifChain(k)
	db := w.db
	local := chain[k]
	svc := &verifBackupService{FileBackupClient: NewFileBackupClient(filepath.Join(w.dir, "backup"))}
	rt.Check(svc.Open() == nil, "backup client opens")
	w.store.BackupClient = svc
	bdir := filepath.Join(svc.path, "db")

	// state of the service
	state := rt.Choose("service.state", 5) // 0 empty, 1 at 41 on our history, 2 at 41 on a fork, 3 at 42 on our history, 4 ahead (TXID 45) on a fork
	var svcPos ltx.Pos
	var svcImg [][]byte
	putSnapshot := func(max ltx.TXID, img [][]byte) {
		must(os.MkdirAll(bdir, 0o777))
		hdr := ltx.Header{PageSize: verifP, Commit: 1, MinTXID: 1, MaxTXID: max}
		file := verifEncodeLTX(hdr, []uint32{1}, img, verifSpecChecksum(img))
		must(os.WriteFile(filepath.Join(bdir, ltx.FormatFilename(1, max)), file, 0o666))
		svcPos, svcImg = ltx.Pos{TXID: max, PostApplyChecksum: verifSpecChecksum(img)}, img
	}
	fork := func() [][]byte {
		p := rt.Bytes("forked", verifP)
		verifHeaderPage(p, 1, false)
		return [][]byte{p}
	}
	switch state {
	case 1:
		putSnapshot(41, w.img0)
	case 2:
		putSnapshot(41, fork())
		rt.Assume(svcPos.PostApplyChecksum != chain[0].PostApplyChecksum)
	case 3:
		putSnapshot(41, w.img0)
		b, err := os.ReadFile(db.LTXPath(42, 42))
		must(err)
		must(os.WriteFile(filepath.Join(bdir, ltx.FormatFilename(42, 42)), b, 0o666))
		svcPos = chain[1]
	case 4:
		putSnapshot(45, fork())
	}
	if state == 3 && k == 1 {
		// already in sync
	}
	// retention may have removed the oldest local file
	reaped := rt.Choose("local.42.reaped", 2) == 1
	if reaped {
		must(os.Remove(db.LTXPath(42, 42)))
	}
	before := verifBackupFiles(bdir)

	err := w.store.SyncBackup(ctx)
	rt.Check(err == nil, "sync succeeds")
	rt.Check(len(w.exits) == 0, "no fatal exit")
	after, perr := svc.PosMap(ctx)
	rt.Check(perr == nil, "service position readable")

	contiguous := state == 0 || (state == 1 && !reaped) || (state == 3 && (k == 1 || !reaped || true))
	if state == 3 {
		contiguous = true // next needed file is 43 (or nothing)
	}
	if contiguous {
		rt.Reach("c14.uploaded")
		rt.Check(after["db"] == local, "after a sync on an idle primary the service is at the primary's position")
		rt.Check(db.Pos() == local, "the primary keeps its own position")
		// the service holds one contiguous chain
		files := verifBackupFiles(bdir)
		sort.Strings(files)
		var prev ltx.TXID
		for _, f := range files {
			min, max, perr := ltx.ParseFilename(f)
			rt.Check(perr == nil, "only transaction files on the service")
			rt.Check(min == prev+1, "service chain has no gap")
			prev = max
		}
		rt.Check(prev == local.TXID, "service chain ends at the primary's TXID")
		rt.Check(db.HWM() <= after["db"].TXID, "published high-water mark never exceeds what the service acknowledged")
	} else {
		rt.Reach("c14.restored")
		// the service is authoritative: the primary adopts its snapshot, the service is not overwritten
		rt.Check(svc.writes == 0, "nothing is written to a service that is ahead, forked or cannot be extended contiguously")
		now := verifBackupFiles(bdir)
		rt.Check(len(now) == len(before), "service files untouched")
		rt.Check(after["db"] == svcPos, "service position unchanged")
		rt.Check(db.Pos() == svcPos, "the primary adopts the service's position")
		verifC01CheckImage(w, svcImg, "the primary's database is byte-identical to the service's snapshot")
		rt.Check(db.Pos().PostApplyChecksum == verifSpecChecksum(w.verifReadImage()), "C04: checksum after restore")
		// the local log is the service's history now: nothing of the abandoned local history stays behind
		verifCheckChain(db, "C14: after adopting the service's snapshot the local transaction log")
	}
	// a second sync on the idle primary changes nothing
	writes := svc.writes
	rt.Check(w.store.SyncBackup(ctx) == nil, "second sync succeeds")
	again, _ := svc.PosMap(ctx)
	rt.Check(svc.writes == writes && again["db"] == db.Pos(), "a repeated sync on an idle primary is a no-op and both sides agree")
}

// VerifC14BatchLimit: a backlog longer than the 256-file compaction limit is
// uploaded in contiguous batches; the published high-water mark never runs
// ahead of what the service acknowledged; retention in between removes nothing
// the service still needs.
func VerifC14BatchLimit() {
	ctx := context.Background()
	w := verifNewStore(true)
	img := verifImageBig("img0", 1, false)
	// page 1 symbolic content would make 260 compactions expensive: use a concrete first page here
	for i := range img[0] {
		img[0][i] = byte(i)
	}
	verifHeaderPage(img[0], 1, false)
	w.verifOpenDB(img, 41)
	db := w.db
	svc := &verifBackupService{FileBackupClient: NewFileBackupClient(filepath.Join(w.dir, "backup"))}
	rt.Check(svc.Open() == nil, "backup client opens")
	w.store.BackupClient = svc
	bdir := filepath.Join(svc.path, "db")
	must(os.MkdirAll(bdir, 0o777))
	// service: snapshot at 41 on our history
	snap := verifEncodeLTX(ltx.Header{PageSize: verifP, Commit: 1, MinTXID: 1, MaxTXID: 41}, []uint32{1}, img, verifSpecChecksum(img))
	must(os.WriteFile(filepath.Join(bdir, ltx.FormatFilename(1, 41)), snap, 0o666))
	// local history: n further transactions, written as transaction files (what n commits leave behind)
	n := MaxBackupLTXFileN + 1 + rt.Choose("extra", 2)
	prev := db.Pos()
	cur := img
	for i := 0; i < n; i++ {
		p := make([]byte, verifP)
		copy(p, cur[0])
		p[200] = byte(i)
		p[201] = byte(i >> 8)
		cur = [][]byte{p}
		tx := prev.TXID + 1
		post := verifSpecChecksum(cur)
		file := verifEncodeLTX(ltx.Header{PageSize: verifP, Commit: 1, MinTXID: tx, MaxTXID: tx, PreApplyChecksum: prev.PostApplyChecksum, NodeID: 1}, []uint32{1}, cur, post)
		must(os.WriteFile(db.LTXPath(tx, tx), file, 0o666))
		prev = ltx.Pos{TXID: tx, PostApplyChecksum: post}
	}
	must(os.WriteFile(db.DatabasePath(), cur[0], 0o666))
	rt.Check(db.Recover(ctx) == nil && w.store.Recover(ctx) == nil, "harness")
	db2 := NewDB(w.store, "db", db.Path())
	rt.Check(db2.Open() == nil, "harness: reopen on the long history")
	w.store.dbs["db"] = db2
	w.db, db = db2, db2
	local := db.Pos()
	rt.Check(local == prev, "harness: primary is at the end of its history")

	if rt.Choose("continuous.stream", 2) == 1 {
		// the continuous stream: it remembers what each upload reached instead of asking the service again.
		// A commit lands while the first batch is being acknowledged, which triggers the next round.
		var final ltx.Pos
		svc.afterUpload = func() {
			pos, ok := VerifCommitPage1(db)
			rt.Check(ok, "harness: local commit while the first batch is acknowledged")
			final = pos
		}
		w.store.BackupDelay = time.Millisecond
		w.store.BackupFullSyncInterval = 0
		rt.Ticks = 0
		sctx := rt.NewEnvCtx(3)
		serr := w.store.streamBackup(sctx, false)
		rt.Check(serr == nil || sctx.Err() != nil, "the backup stream only ends because the node shuts down")
		if serr != nil {
			return
		}
		rt.Check(db.Pos() == final && final.TXID == local.TXID+1, "the primary is never rolled back because the service is merely behind")
		got, _ := svc.PosMap(ctx)
		rt.Check(db.HWM() <= got["db"].TXID, "published high-water mark never exceeds what the service acknowledged")
		if rt.Ticks >= 1 {
			rt.Check(got["db"] == final, "after a batch of 256 the next round continues from what the service acknowledged and reaches the primary's position")
			rt.Reach("c14.batches.continuous")
		}
		return
	}
	rt.Check(w.store.SyncBackup(ctx) == nil, "first sync succeeds")
	after1, _ := svc.PosMap(ctx)
	rt.Check(after1["db"].TXID == 41+MaxBackupLTXFileN, "one sync uploads one contiguous batch of at most 256 files")
	rt.Check(db.HWM() <= after1["db"].TXID, "published high-water mark never exceeds what the service acknowledged")
	// a retention sweep between syncs must not remove what the service has not got yet
	rt.Check(db.EnforceRetention(ctx, rt.MkTime(1<<62)) == nil, "retention sweep")
	for tx := after1["db"].TXID + 1; tx <= local.TXID; tx++ {
		rt.Check(!verifGone(db.LTXPath(tx, tx)), "retention keeps every file the service has not confirmed")
	}
	rt.Check(w.store.SyncBackup(ctx) == nil, "second sync succeeds")
	after2, _ := svc.PosMap(ctx)
	rt.Check(after2["db"] == local && db.Pos() == local, "repeated syncs bring the service to the primary's position without rolling the primary back")
	rt.Reach("c14.batches")
}

// VerifC14UploadRacingCommit: the continuous backup stream; the first upload of
// a database (a snapshot) is acknowledged after a local transaction has
// committed in the meantime. What the primary believes the service holds must
// be the position of the snapshot it sent: the next round then ships the
// missing transaction, and the primary is never rolled back.
func VerifC14UploadRacingCommit() {
	w, chain := verifChain(1)
	db := w.db
	svc := &verifBackupService{FileBackupClient: NewFileBackupClient(filepath.Join(w.dir, "backup"))}
	rt.Check(svc.Open() == nil, "backup client opens")
	w.store.BackupClient = svc
	w.store.BackupDelay = time.Millisecond
	w.store.BackupFullSyncInterval = 0 // the position map is fetched once; afterwards the primary relies on what each upload returned
	sent := chain[1]
	var local ltx.Pos
	svc.afterUpload = func() {
		pos, ok := VerifCommitPage1(db)
		rt.Check(ok, "harness: local commit while the upload is being acknowledged")
		local = pos
	}
	rt.Ticks = 0
	ctx := rt.NewEnvCtx(3)
	serr := w.store.streamBackup(ctx, false)
	rt.Check(serr == nil || ctx.Err() != nil, "the backup stream only ends because the node shuts down")
	if serr != nil {
		return // shut down in the middle of a round: nothing more to say
	}
	rt.Check(local.TXID == sent.TXID+1 && db.Pos() == local, "the local commit stands: the primary is never rolled back to the service's older position")
	after, _ := svc.PosMap(context.Background())
	rt.Check(db.HWM() <= after["db"].TXID, "published high-water mark never exceeds what the service acknowledged")
	if rt.Ticks >= 1 {
		// the batching delay elapsed, so a second round ran before the shutdown
		rt.Check(after["db"] == local, "the round after the first upload ships the transaction committed while that upload was acknowledged")
		rt.Reach("c14.upload.racing.commit")
	} else {
		rt.Check(after["db"] == sent, "the service holds the snapshot of the position it was sent")
	}
	rt.Check(len(w.exits) == 0, "no fatal exit")
}
