package litefs

import (
	"context"

	rt "github.com/superfly/litefs/internal/verifrt"
)

// ---- C12: one RWMutex, four guards, arbitrary invariant state, one step ----

type verifC12World struct {
	rw   *RWMutex
	g    [4]*RWMutexGuard
	anon int // anonymous shared holders (guards not tracked explicitly)
}

// verifC12Inv is the representation invariant of RWMutex w.r.t. its guards.
func verifC12Inv(w *verifC12World) bool {
	nEx, nSh := 0, 0
	var ex *RWMutexGuard
	for _, g := range w.g {
		if g.rw != w.rw {
			return false
		}
		switch g.state {
		case RWMutexStateExclusive:
			nEx++
			ex = g
		case RWMutexStateShared:
			nSh++
		case RWMutexStateUnlocked:
		default:
			return false
		}
	}
	if w.anon < 0 {
		return false
	}
	if nEx > 0 {
		return nEx == 1 && nSh == 0 && w.anon == 0 && w.rw.excl == ex && w.rw.sharedN == 0
	}
	return w.rw.excl == nil && w.rw.sharedN == nSh+w.anon
}

// verifC12Arbitrary builds every invariant state: guard states are enumerated,
// the anonymous shared count is symbolic.
func verifC12Arbitrary() *verifC12World {
	w := &verifC12World{rw: &RWMutex{}}
	nEx, nSh := 0, 0
	for i := range w.g {
		g := w.rw.Guard()
		w.g[i] = &g
		st := RWMutexState(rt.Choose("guard.state", 3))
		if st == RWMutexStateExclusive {
			nEx++
			w.rw.excl = w.g[i]
		} else if st == RWMutexStateShared {
			nSh++
		}
		w.g[i].state = st
	}
	if nEx > 1 || (nEx == 1 && nSh > 0) {
		rt.Assume(false)
	}
	if nEx == 0 {
		w.anon = rt.Int("anon.shared")
		rt.Assume(w.anon >= 0 && w.anon <= 1<<32)
		w.rw.sharedN = nSh + w.anon
	}
	return w
}

type verifC12Snap struct {
	st      [4]RWMutexState
	sharedN int
	excl    *RWMutexGuard
}

func verifC12Snapshot(w *verifC12World) verifC12Snap {
	var s verifC12Snap
	for i, g := range w.g {
		s.st[i] = g.state
	}
	s.sharedN, s.excl = w.rw.sharedN, w.rw.excl
	return s
}

func verifC12Same(w *verifC12World, s verifC12Snap) bool {
	for i, g := range w.g {
		if g.state != s.st[i] {
			return false
		}
	}
	return w.rw.sharedN == s.sharedN && w.rw.excl == s.excl
}

// VerifC12Step: one operation by one owner from an arbitrary invariant state.
func VerifC12Step() {
	w := verifC12Arbitrary()
	rt.Check(verifC12Inv(w), "harness: constructed state satisfies Inv")
	a := rt.Choose("actor", 4)
	op := rt.Choose("op", 6)
	pre := verifC12Snapshot(w)
	preMutex := w.rw.state()

	// POSIX oracle between distinct owners.
	othersExcl, othersShared := false, w.anon > 0
	for i, g := range w.g {
		if i == a {
			continue
		}
		if g.state == RWMutexStateExclusive {
			othersExcl = true
		} else if g.state == RWMutexStateShared {
			othersShared = true
		}
	}

	// state-change callback monitor
	fired := 0
	var cbPrev, cbNew RWMutexState
	muFreeInCallback := true
	w.rw.OnLockStateChange = func(p, n RWMutexState) {
		fired++
		cbPrev, cbNew = p, n
		if w.rw.mu.TryLock() {
			w.rw.mu.Unlock()
		} else {
			muFreeInCallback = false
		}
	}
	rt.Reach("c12.step.pre")
	g := w.g[a]
	switch op {
	case 0: // TryLock
		ok := g.TryLock()
		want := !othersExcl && !othersShared
		rt.Check(ok == want, "TryLock granted iff no other holder (POSIX write lock rule)")
		rt.Check(!want, "TWIN:TryLock never granted")
		if ok {
			rt.Check(g.state == RWMutexStateExclusive, "TryLock success: guard exclusive")
			rt.Check(w.rw.excl == g && w.rw.sharedN == 0, "TryLock success: mutex exclusively held by actor")
			for i, o := range w.g {
				if i != a {
					rt.Check(o.state == pre.st[i], "TryLock success: other guards untouched")
				}
			}
		} else {
			rt.Check(verifC12Same(w, pre), "failed TryLock changes nothing")
		}
	case 1: // TryRLock
		ok := g.TryRLock()
		want := !othersExcl
		rt.Check(ok == want, "TryRLock granted iff no other exclusive holder (POSIX read lock rule)")
		if ok {
			rt.Check(g.state == RWMutexStateShared, "TryRLock success: guard shared")
			rt.Check(w.rw.excl == nil, "TryRLock success: no exclusive holder remains")
			want := pre.sharedN
			if pre.st[a] != RWMutexStateShared {
				want++
			}
			rt.Check(w.rw.sharedN == want, "TryRLock success: shared count")
		} else {
			rt.Check(verifC12Same(w, pre), "failed TryRLock changes nothing")
		}
	case 2: // Unlock
		g.Unlock()
		rt.Check(g.state == RWMutexStateUnlocked, "Unlock: guard unlocked")
		if pre.st[a] == RWMutexStateUnlocked {
			rt.Check(verifC12Same(w, pre), "unlock of an unheld lock is a no-op")
		}
		for i, o := range w.g {
			if i != a {
				rt.Check(o.state == pre.st[i], "Unlock: other guards untouched")
			}
		}
	case 3: // CanLock
		can, ms := g.CanLock()
		rt.Check(verifC12Same(w, pre), "CanLock leaves the state identical")
		rt.Check(ms == preMutex, "CanLock reports the mutex state")
		rt.Check(can == (!othersExcl && !othersShared), "CanLock = outcome of the attempt")
		ok := g.TryLock()
		rt.Check(ok == can, "CanLock agrees with the TryLock that follows")
		w.rw.OnLockStateChange = nil
	case 4: // CanRLock
		can := g.CanRLock()
		rt.Check(verifC12Same(w, pre), "CanRLock leaves the state identical")
		rt.Check(can == !othersExcl, "CanRLock = outcome of the attempt")
		ok := g.TryRLock()
		rt.Check(ok == can, "CanRLock agrees with the TryRLock that follows")
		w.rw.OnLockStateChange = nil
	case 5: // State queries
		rt.Check(g.State() == pre.st[a], "guard State()")
		rt.Check(w.rw.State() == preMutex, "mutex State()")
		rt.Check(verifC12Same(w, pre), "State() leaves the state identical")
	}
	rt.Check(verifC12Inv(w), "Inv holds after the operation")
	if op <= 2 {
		post := w.rw.state()
		if post != preMutex {
			rt.Check(fired == 1 && cbPrev == preMutex && cbNew == post, "OnLockStateChange fires once with (prev,new) when the mutex state changed")
		} else {
			rt.Check(fired == 0, "OnLockStateChange does not fire when the mutex state is unchanged")
		}
		rt.Check(muFreeInCallback, "OnLockStateChange runs after the internal mutex is released")
	}
	rt.Check(w.rw.mu.TryLock(), "internal mutex released on return")
	rt.Reach("c12.step.post")
}

// VerifC12Blocking: Lock/RLock with a context, while another owner may release
// between polls.
func VerifC12Blocking() {
	rt.SelectNondet(true) // the poll tick and the context's end may both be ready: either may be taken
	rt.SelectNondetBudget(6)
	rw := &RWMutex{}
	g0, g1, g2 := rw.Guard(), rw.Guard(), rw.Guard()
	excl := rt.Choose("blocking.excl", 2) == 0 // which variant the actor calls
	holder := rt.Choose("holder.state", 3)     // other owner: unlocked / shared / exclusive
	switch RWMutexState(holder) {
	case RWMutexStateShared:
		g1.TryRLock()
		if rt.Choose("second.reader", 2) == 1 {
			g2.TryRLock()
		}
	case RWMutexStateExclusive:
		g1.TryLock()
	}
	// the lock is available to the actor when nobody else holds it (exclusive request) or when nobody
	// else holds it exclusively (shared request)
	available := func() bool {
		if excl {
			return g1.State() == RWMutexStateUnlocked && g2.State() == RWMutexStateUnlocked
		}
		return g1.State() != RWMutexStateExclusive && g2.State() != RWMutexStateExclusive
	}
	blockedAtStart := !available()
	availableAtTick := -1
	rt.Ticks = 0
	rt.OnTick = func() {
		// the other owners release, or the exclusive holder downgrades to shared and keeps holding
		switch rt.Choose("env.action", 4) {
		case 1:
			g1.Unlock()
		case 2:
			g2.Unlock()
		case 3:
			if g1.State() == RWMutexStateExclusive {
				rt.Check(g1.TryRLock(), "harness: downgrade")
			}
		}
		if availableAtTick < 0 && available() {
			availableAtTick = rt.Ticks
		}
	}
	polls := 3
	if rt.Tier() > 0 {
		polls = 5
	}
	ctx := rt.NewEnvCtx(polls)
	var err error
	if excl {
		err = g0.Lock(ctx)
	} else {
		err = g0.RLock(ctx)
	}
	rt.OnTick = nil
	if err == nil {
		rt.Reach("c12.blocking.acquired")
		if excl {
			rt.Check(g0.state == RWMutexStateExclusive && rw.excl == &g0, "Lock returned nil: exclusive holder is the caller")
		} else {
			rt.Check(g0.state == RWMutexStateShared && rw.excl == nil, "RLock returned nil: shared")
		}
		rt.Check(!blockedAtStart || availableAtTick >= 0, "nil only after the lock became available")
		if blockedAtStart {
			rt.Check(rt.Ticks == availableAtTick, "returns at the first poll at which the lock is available")
		} else {
			rt.Check(rt.Ticks == 0, "free lock: returns without waiting")
		}
	} else {
		rt.Reach("c12.blocking.cancelled")
		rt.Check(err == context.Canceled, "error is the context's cause")
		rt.Check(ctx.Err() != nil, "error only when the context is done")
		rt.Check(g0.state == RWMutexStateUnlocked, "cancelled wait leaves the guard unlocked")
		rt.Check(blockedAtStart, "a free lock is acquired without consulting the context")
		rt.Check(availableAtTick < 0 || !available() || availableAtTick == rt.Ticks, "a wait is only cancelled while the lock is unavailable (or in the very poll it became available)")
	}
}
