package http

var verifHarnesses = map[string]func(){
	"VerifC18PosMapLongNames":      VerifC18PosMapLongNames,
	"VerifC18PosMapRoundTrip":      VerifC18PosMapRoundTrip,
	"VerifC18PosMapHostile":        VerifC18PosMapHostile,
	"VerifC06StreamHandler":        VerifC06StreamHandler,
	"VerifC06ForwardedBadFile":     VerifC06ForwardedBadFile,
	"VerifC06StreamDB":             VerifC06StreamDB,
	"VerifC20Invalid":              VerifC20Invalid,
	"VerifC19Proxy":                VerifC19Proxy,
	"VerifC13ForwardedTx":          VerifC13ForwardedTx,
	"VerifC07ImportAcrossDemotion": VerifC07ImportAcrossDemotion,
}
