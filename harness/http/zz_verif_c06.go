package http

import (
	"bytes"
	"context"
	"io"
	"net/http"
	"os"

	"github.com/superfly/litefs"
	"github.com/superfly/litefs/internal/chunk"
	rt "github.com/superfly/litefs/internal/verifrt"
	"github.com/superfly/ltx"
)

// verifRW records what a handler writes.
type verifRW struct {
	hdr    http.Header
	code   int
	body   rt.Buf
	writes int
}

func (w *verifRW) Header() http.Header {
	if w.hdr == nil {
		w.hdr = http.Header{}
	}
	return w.hdr
}
func (w *verifRW) Write(p []byte) (int, error) {
	if w.code == 0 {
		w.code = 200
	}
	w.writes++
	return w.body.Write(p)
}
func (w *verifRW) WriteHeader(code int) {
	if w.code == 0 {
		w.code = code
	}
}
func (w *verifRW) Flush() {}

type verifSent struct {
	hdr     ltx.Header
	trailer ltx.Trailer
}

// verifParseStream decodes the frames a stream handler wrote.
func verifParseStream(b []byte) (sent []verifSent, other int) {
	r := bytes.NewReader(b)
	for r.Len() > 0 {
		f, err := litefs.ReadStreamFrame(r)
		rt.Check(err == nil, "stream output is a sequence of well-formed frames")
		switch f.(type) {
		case *litefs.LTXStreamFrame:
			cr := chunk.NewReader(r)
			dec := ltx.NewDecoder(cr)
			rt.Check(dec.Verify() == nil, "every transaction file on the stream passes its integrity check")
			n, derr := io.Copy(io.Discard, cr) // the end-of-body chunk
			rt.Check(derr == nil && n == 0, "the chunked body ends right after the transaction file")
			sent = append(sent, verifSent{dec.Header(), dec.Trailer()})
		default:
			other++
		}
	}
	return sent, other
}

// VerifC06StreamDB: what the primary sends to a replica claiming position p.
func VerifC06StreamDB() {
	rt.TimeoutsMayFire = false
	ctx := context.Background()
	k := 2
	store, db, chain := litefs.VerifPrimaryChain(k)
	primary := chain[k]
	// the client's claimed position
	ctx0 := []uint64{0, 40, 41, 42, 43, 44}[rt.Choose("client.txid", 6)]
	client := ltx.Pos{TXID: ltx.TXID(ctx0)}
	onChain := false
	if ctx0 >= 41 && ctx0 <= 43 && rt.Choose("client.checksum", 2) == 0 {
		client.PostApplyChecksum = chain[ctx0-41].PostApplyChecksum
		onChain = true
	} else if ctx0 != 0 {
		client.PostApplyChecksum = ltx.Checksum(rt.U64("client.chk")) | ltx.ChecksumFlag
		if ctx0 >= 41 && ctx0 <= 43 {
			rt.Assume(client.PostApplyChecksum != chain[ctx0-41].PostApplyChecksum)
		}
	}
	// retention may have removed the oldest transaction file
	reaped := rt.Choose("reaped.42", 2) == 1
	if reaped {
		must(os.Remove(db.LTXPath(42, 42)))
	}
	posMap := map[string]ltx.Pos{"db": client}
	s := &Server{store: store}
	w := &verifRW{}
	err := s.streamDB(ctx, w, "db", posMap)
	rt.Check(err == nil, "streamDB succeeds")
	sent, _ := verifParseStream(w.body.B)
	rt.Check(posMap["db"] == primary, "the replica's tracked position ends at the primary's position")

	incrementalOK := onChain && !(reaped && ctx0 == 41)
	if incrementalOK {
		rt.Reach("c06.incremental")
		rt.Check(len(sent) == int(43-ctx0), "a replica on the primary's history receives exactly the missing transactions")
		prev := client
		for _, x := range sent {
			rt.Check(!x.hdr.IsSnapshot(), "no snapshot for a replica on the chain")
			rt.Check(x.hdr.MinTXID == prev.TXID+1 && x.hdr.PreApplyChecksum == prev.PostApplyChecksum, "each incremental file extends exactly the position the replica is at")
			prev = ltx.Pos{TXID: x.hdr.MaxTXID, PostApplyChecksum: x.trailer.PostApplyChecksum}
		}
		rt.Check(prev == primary, "the sequence ends at the primary's position")
	} else {
		rt.Reach("c06.snapshot")
		rt.Check(len(sent) == 1 && sent[0].hdr.IsSnapshot(), "a divergent, stale, ahead or empty replica gets one full snapshot and no incremental transaction")
		if len(sent) == 1 {
			rt.Check(sent[0].hdr.MaxTXID == primary.TXID && sent[0].trailer.PostApplyChecksum == primary.PostApplyChecksum, "the snapshot is the image at the primary's position")
		}
	}
	rt.Check(false, "TWIN:nothing is ever streamed")
}

func must(err error) {
	if err != nil {
		panic(err)
	}
}

var _ = io.EOF
