package http

import (
	"bytes"
	"context"
	"io"
	"net/http"
	"os"

	"github.com/superfly/litefs"
	"github.com/superfly/litefs/internal/chunk"
	rt "github.com/superfly/litefs/internal/verifrt"
	"github.com/superfly/ltx"
)

// verifRW records what a handler writes.
type verifRW struct {
	hdr    http.Header
	code   int
	body    rt.Buf
	writes  int
	onWrite func(n int)
}

func (w *verifRW) Header() http.Header {
	if w.hdr == nil {
		w.hdr = http.Header{}
	}
	return w.hdr
}
func (w *verifRW) Write(p []byte) (int, error) {
	if w.code == 0 {
		w.code = 200
	}
	w.writes++
	if w.onWrite != nil {
		w.onWrite(w.writes)
	}
	return w.body.Write(p)
}
func (w *verifRW) WriteHeader(code int) {
	if w.code == 0 {
		w.code = code
	}
}
func (w *verifRW) Flush() {}

type verifSent struct {
	hdr     ltx.Header
	trailer ltx.Trailer
}

// verifParseStream decodes the frames a stream handler wrote.
func verifParseStream(b []byte) (sent []verifSent, other int) {
	r := bytes.NewReader(b)
	for r.Len() > 0 {
		f, err := litefs.ReadStreamFrame(r)
		rt.Check(err == nil, "stream output is a sequence of well-formed frames")
		switch f.(type) {
		case *litefs.LTXStreamFrame:
			cr := chunk.NewReader(r)
			dec := ltx.NewDecoder(cr)
			rt.Check(dec.Verify() == nil, "every transaction file on the stream passes its integrity check")
			n, derr := io.Copy(io.Discard, cr) // the end-of-body chunk
			rt.Check(derr == nil && n == 0, "the chunked body ends right after the transaction file")
			sent = append(sent, verifSent{dec.Header(), dec.Trailer()})
		default:
			other++
		}
	}
	return sent, other
}

// VerifC06StreamDB: what the primary sends to a replica claiming position p.
func VerifC06StreamDB() {
	rt.TimeoutsMayFire = false
	ctx := context.Background()
	k := 2
	// the primary's log either starts after position 41 (older files gone) or holds every file since TXID 1
	base := uint64([]int{41, 0}[rt.Choose("history.from", 2)])
	store, db, chain := litefs.VerifPrimaryChainFrom(k, base)
	primary := chain[k]
	// the client's claimed position
	ctx0 := base + uint64(rt.Choose("client.txid", 5)) - 1 // base-1 .. base+3
	if rt.Choose("client.empty", 2) == 1 || int64(ctx0) < 0 {
		ctx0 = 0
	}
	client := ltx.Pos{TXID: ltx.TXID(ctx0)}
	onChain := false
	if ctx0 >= base && ctx0 <= base+2 && ctx0 != 0 && rt.Choose("client.checksum", 2) == 0 {
		client.PostApplyChecksum = chain[ctx0-base].PostApplyChecksum
		onChain = true
	} else if ctx0 != 0 {
		client.PostApplyChecksum = ltx.Checksum(rt.U64("client.chk")) | ltx.ChecksumFlag
		if ctx0 >= base && ctx0 <= base+2 {
			rt.Assume(client.PostApplyChecksum != chain[ctx0-base].PostApplyChecksum)
		}
	}
	// retention may have removed the oldest transaction file
	reaped := rt.Choose("reaped.oldest", 2) == 1
	if reaped {
		must(os.Remove(db.LTXPath(ltx.TXID(base+1), ltx.TXID(base+1))))
	}
	posMap := map[string]ltx.Pos{"db": client}
	s := &Server{store: store}
	w := &verifRW{}
	err := s.streamDB(ctx, w, "db", posMap)
	rt.Check(err == nil, "streamDB succeeds")
	sent, _ := verifParseStream(w.body.B)
	rt.Check(posMap["db"] == primary, "the replica's tracked position ends at the primary's position")

	incrementalOK := onChain && !(reaped && ctx0 == base)
	if incrementalOK {
		rt.Reach("c06.incremental")
		rt.Check(len(sent) == int(base+2-ctx0), "a replica on the primary's history receives exactly the missing transactions")
		prev := client
		for _, x := range sent {
			rt.Check(!x.hdr.IsSnapshot(), "no snapshot for a replica on the chain")
			rt.Check(x.hdr.MinTXID == prev.TXID+1 && x.hdr.PreApplyChecksum == prev.PostApplyChecksum, "each incremental file extends exactly the position the replica is at")
			prev = ltx.Pos{TXID: x.hdr.MaxTXID, PostApplyChecksum: x.trailer.PostApplyChecksum}
		}
		rt.Check(prev == primary, "the sequence ends at the primary's position")
	} else {
		rt.Reach("c06.snapshot")
		rt.Check(len(sent) == 1 && sent[0].hdr.IsSnapshot(), "a divergent, stale, ahead or empty replica gets one full snapshot and no incremental transaction")
		if len(sent) == 1 {
			rt.Check(sent[0].hdr.MaxTXID == primary.TXID && sent[0].trailer.PostApplyChecksum == primary.PostApplyChecksum, "the snapshot is the image at the primary's position")
		}
	}
	rt.Check(false, "TWIN:nothing is ever streamed")
}

func must(err error) {
	if err != nil {
		panic(err)
	}
}

var _ = io.EOF

// VerifC06StreamHandler: the whole POST /stream handler on a primary with a
// three-position history: the replica announces its position in the request
// body, an optional database filter, and disconnects after a few polls. The
// recorded response is parsed back frame by frame.
func VerifC06StreamHandler() {
	rt.TimeoutsMayFire = false
	k := 2
	store, db, chain := litefs.VerifPrimaryChain(k)
	primary := chain[k]
	litefs.VerifSetStoreID(store, 0xB0B)
	s := &Server{store: store}
	sctx, shutdown := context.WithCancel(context.Background())
	s.ctx = sctx
	// the server shuts down at the first heartbeat tick, i.e. once the handler has gone idle
	idle := false
	rt.OnTick = func() { idle = true; shutdown() }
	// a local commit lands while the handler is busy writing the initial replication set
	lateCommit := rt.Choose("commit.while.streaming", 2) == 1
	final := primary
	// the replica's announcement
	posMap := map[string]ltx.Pos{}
	state := rt.Choose("client.state", 5)
	switch state {
	case 1:
		posMap["db"] = chain[1] // on the chain, one behind
	case 3:
		posMap["db"] = primary // caught up
	case 4:
		posMap["db"] = ltx.Pos{TXID: primary.TXID, PostApplyChecksum: primary.PostApplyChecksum ^ 2} // same TXID, another history
	case 2:
		posMap["gone"] = ltx.Pos{TXID: 7, PostApplyChecksum: ltx.ChecksumFlag | 9} // a database the primary does not have
	}
	var body bytes.Buffer
	rt.Check(WritePosMapTo(&body, posMap) == nil, "harness: position map encoded")
	filter := []string{"", "filter=db", "filter=other"}[rt.Choose("filter", 3)]
	req := verifRequest("POST", "/stream", filter, "00000000000000AA", body.Bytes())
	w := &verifRW{}
	committedAt := 0
	if lateCommit {
		// ... at any of the handler's writes: inside a transaction file, before the ready frame, before the heartbeat
		at := 1 + rt.Choose("commit.at.write", 24)
		w.onWrite = func(n int) {
			if n == at && !idle { // (a commit after the handler went idle belongs to the next round)
				if pos, ok := litefs.VerifCommitPage1(db); ok {
					committedAt = n
					final = pos
				}
			}
		}
	}
	rt.NoHang(20000, func() { s.serveHTTP(w, req) })
	rt.OnTick = nil
	if lateCommit && committedAt == 0 {
		rt.Assume(false) // the handler made fewer writes than the chosen index
	}
	before := litefs.VerifSnapshotState(store)
	rt.Check(w.code == 200, "a well-formed stream request on the primary is accepted")

	// parse what was sent
	r := bytes.NewReader(w.body.B)
	var order []string
	var ltxFor []string
	var hdrs []ltx.Header
	var trls []ltx.Trailer
	for r.Len() > 0 {
		f, err := litefs.ReadStreamFrame(r)
		rt.Check(err == nil, "stream output is a sequence of well-formed frames")
		switch f := f.(type) {
		case *litefs.LTXStreamFrame:
			cr := chunk.NewReader(r)
			dec := ltx.NewDecoder(cr)
			rt.Check(dec.Verify() == nil, "every streamed transaction file passes its integrity check")
			_, _ = io.Copy(io.Discard, cr)
			order = append(order, "ltx")
			ltxFor = append(ltxFor, f.Name)
			hdrs, trls = append(hdrs, dec.Header()), append(trls, dec.Trailer())
		case *litefs.ReadyStreamFrame:
			order = append(order, "ready")
		case *litefs.HeartbeatStreamFrame:
			order = append(order, "heartbeat")
		case *litefs.EndStreamFrame:
			order = append(order, "end")
		case *litefs.DropDBStreamFrame:
			order = append(order, "dropdb")
			rt.Check(f.Name == "gone", "only a database the primary does not have is announced as dropped")
		case *litefs.HWMStreamFrame:
			order = append(order, "hwm")
		default:
			order = append(order, "other")
		}
	}
	rt.Check(len(order) > 0 && order[len(order)-1] == "end", "the stream ends with an end frame when the replica goes away")
	readyAt := -1
	for i, o := range order {
		if o == "ready" && readyAt < 0 {
			readyAt = i
		}
	}
	rt.Check(readyAt >= 0, "a ready frame is sent")
	nltx := 0
	for i, o := range order {
		if o == "ltx" {
			nltx++
			rt.Check(i < readyAt || lateCommit, "the initial replication set is complete before the ready frame")
		}
	}
	if filter == "filter=other" {
		rt.Check(nltx == 0, "a filtered-out database is not sent at all")
	} else if state == 3 && !lateCommit {
		rt.Check(nltx == 0, "a replica already at the primary's position is sent no transaction data")
	} else {
		rt.Check(nltx >= 1, "the data the replica lacks is sent")
		last := len(hdrs) - 1
		rt.Check(hdrs[last].MaxTXID == final.TXID && trls[last].PostApplyChecksum == final.PostApplyChecksum, "C01: by the time the handler goes idle the replica has been sent everything up to the primary's current position, including a commit that landed while the handler was busy")
	}
	for i := range hdrs {
		rt.Check(ltxFor[i] == "db", "transaction data is labelled with its database")
	}
	if state == 4 && filter != "filter=other" {
		rt.Check(nltx >= 1 && hdrs[0].IsSnapshot() && (readyAt > 0 && order[0] == "ltx"), "C06: a replica at the primary's TXID with another checksum is sent a snapshot before it is told it is ready")
	}
	if nltx == 1 {
		if at, onChain := posMap["db"]; onChain && state != 4 {
			rt.Check(!hdrs[0].IsSnapshot() && hdrs[0].MinTXID == at.TXID+1 && hdrs[0].PreApplyChecksum == at.PostApplyChecksum, "a replica on the chain gets the next transaction, extending exactly its position")
		} else {
			rt.Check(hdrs[0].IsSnapshot(), "a replica without the database gets a snapshot")
		}
		if !lateCommit {
			rt.Check(hdrs[0].MaxTXID == primary.TXID && trls[0].PostApplyChecksum == primary.PostApplyChecksum, "and ends at the primary's position")
		}
	}
	if _, has := posMap["gone"]; has && filter == "" {
		found := false
		for _, o := range order {
			if o == "dropdb" {
				found = true
			}
		}
		rt.Check(found, "a database only the replica has is reported back")
	}
	_ = before
	rt.Check(store.SubscriberByNodeID(0xAA) == nil, "C20: no subscriber is left behind once the stream has ended")
	rt.Check(litefs.VerifSnapshotState(store).Unlocked, "C20: no lock is left behind")
	_ = db
	rt.Reach("c06.stream.handler")
}
