package http

import (
	"context"

	"github.com/superfly/litefs"
	rt "github.com/superfly/litefs/internal/verifrt"
)

// VerifC07ImportAcrossDemotion: POST /import arrives on a primary while a local
// write transaction holds the write lock; while the import waits, the node may
// lose its lease; then the local transaction ends. An import that gets the
// lock only after the node lost write authority must be refused, not published.
func VerifC07ImportAcrossDemotion() {
	ctx := context.Background()
	s, store, db := verifServer(0)
	pos0 := db.Pos()
	ok, _ := db.TryLocks(ctx, 1, []litefs.LockType{litefs.LockTypeReserved})
	rt.Check(db.TryRLocks(ctx, 1, []litefs.LockType{litefs.LockTypeShared}) && ok, "harness: local writer holds its locks")
	demoted, released := false, false
	ticks := 0
	rt.OnTick = func() {
		ticks++
		if !demoted && !released && rt.Bool("lease.lost.now") {
			demoted = true
			litefs.VerifDemote(store)
			return
		}
		if !released && (ticks >= 3 || rt.Bool("writer.done.now")) {
			released = true
			db.GuardSet(1).Unlock()
		}
	}
	before := litefs.VerifSnapshotState(store)
	w := &verifRW{}
	s.serveHTTP(w, verifRequest("POST", "/import", "name=db", "", litefs.VerifImageBytes("imp", 1, false)))
	rt.OnTick = nil
	code := w.code
	if code == 0 {
		code = 200
	}
	if demoted {
		rt.Check(code >= 400, "an import that was still queued when the node lost write authority is refused")
		if !released {
			db.GuardSet(1).Unlock()
		}
		rt.Check(db.Pos() == pos0, "nothing is published on a node without write authority: position unchanged")
		rt.Check(len(litefs.VerifLTXNames(db)) == 0, "nothing is published on a node without write authority: no transaction file")
		_ = before
		rt.Reach("c07.import.demoted")
		return
	}
	rt.Check(code == 200 && db.Pos().TXID == pos0.TXID+1, "an import queued behind a local writer succeeds once the writer is done (node still primary)")
	rt.Reach("c07.import.primary")
}
