package http

import (
	"bytes"
	"io"
	"net/http"

	"github.com/superfly/litefs"
	rt "github.com/superfly/litefs/internal/verifrt"
	"github.com/superfly/ltx"
)

// VerifC19Proxy: the application proxy: read-your-writes for reads carrying a
// TXID cookie, no writes executed on a replica, cookie after a write.
func VerifC19Proxy() {
	rt.TimeoutPolls = 3
	role := rt.Choose("role", 3) // primary / replica knowing its primary / no primary known
	_, store, db := verifServer(role)
	s := &ProxyServer{store: store, DBName: "db", Target: "app:8080", HTTPTransport: &http.Transport{}}
	pt, _ := CompileMatch("/pass/*")
	af, _ := CompileMatch("/fwd/*")
	s.Passthroughs, s.AlwaysForward = append(s.Passthroughs, pt), append(s.AlwaysForward, af)
	switch rt.Choose("tracked.db", 3) {
	case 1: // the tracked database does not exist on this node
		s.DBName = "otherdb"
	case 2: // it exists but is still empty (registered, initial snapshot not applied yet)
		edb, err := store.CreateDBIfNotExists("emptydb")
		rt.Check(err == nil && edb.PageN() == 0 && edb.Pos().TXID == 0, "harness: empty placeholder database")
		s.DBName = "emptydb"
		db = edb
	}

	method := []string{"GET", "HEAD", "POST", "PUT", "DELETE", "PATCH"}[rt.Choose("method", 6)]
	path := []string{"/other", "/pass/x", "/fwd/x"}[rt.Choose("path", 3)]
	cookie := []string{"", "zz", "0000000000000028", "0000000000000029", "000000000000002a", "000000000000002b"}[rt.Choose("cookie", 6)]
	var cookieTXID ltx.TXID
	if len(cookie) == 16 {
		cookieTXID, _ = ltx.ParseTXID(cookie)
	}
	r := verifRequest(method, path, "", "", nil)
	if cookie != "" {
		r.Header.Set("Cookie", TXIDCookieName+"="+cookie)
	}

	// replication applies transactions while the proxy waits
	rt.OnTick = func() {
		if rt.Bool("replication.applies") {
			next := uint64(db.Pos().TXID) + 1
			if db.Pos().TXID == 0 {
				next = 41 + uint64(rt.Choose("snapshot.txid", 3)) // the initial snapshot lands at some position
			}
			litefs.VerifSetPos(db, next, rt.U64("applied.chk"))
		}
	}
	// the application behind the proxy
	appCookies := rt.Choose("app.cookies", 3)
	createdByWrite := false
	upstream := 0
	var posAtArrival, posAfterWrite ltx.Pos
	rt.Stub("(*net/http.Transport).RoundTrip", func(t *http.Transport, req *http.Request) (*http.Response, error) {
		upstream++
		posAtArrival = db.Pos()
		if req.Method != "GET" && req.Method != "HEAD" && role == 0 && rt.Bool("write.commits") {
			if s.DBName == "otherdb" {
				// the tracked database does not exist yet: this very write creates it and commits to it
				ndb, cerr := store.CreateDBIfNotExists("otherdb")
				rt.Check(cerr == nil, "harness: application creates the tracked database")
				db = ndb
				createdByWrite = true
			}
			litefs.VerifSetPos(db, uint64(db.Pos().TXID)+1, rt.U64("write.chk")) // the application's write commits
		}
		posAfterWrite = db.Pos()
		// the application's response: its own cookies (0..2) and a header with two values
		h := http.Header{"X-Multi": {"1", "2"}}
		for i := 0; i < appCookies; i++ {
			h["Set-Cookie"] = append(h["Set-Cookie"], []string{"session=abc", "theme=dark"}[i])
		}
		return &http.Response{StatusCode: 201, Header: h, Body: io.NopCloser(bytes.NewReader([]byte("ok")))}, nil
	})
	var setCookie *http.Cookie
	rt.Stub("net/http.SetCookie", func(w http.ResponseWriter, c *http.Cookie) {
		setCookie = c
		w.Header().Add("Set-Cookie", c.Name+"="+c.Value) // what net/http does, without the attribute rendering
	})

	w := &verifRW{}
	s.serveHTTP(w, r)
	rt.OnTick = nil
	rt.Stub("(*net/http.Transport).RoundTrip", nil)
	rt.Stub("net/http.SetCookie", nil)

	isRead := method == "GET" || method == "HEAD"
	passthrough := path == "/pass/x"
	forwarded := isRead && path == "/fwd/x"
	tracked := s.DBName != "otherdb"
	switch {
	case passthrough:
		rt.Check(upstream == 1, "passthrough requests go straight to the application")
		rt.Check(setCookie == nil, "passthrough requests set no cookie")
		rt.Reach("c19.passthrough")
	case isRead && !forwarded:
		if cookieTXID != 0 && tracked {
			if upstream > 0 {
				rt.Check(posAtArrival.TXID >= cookieTXID, "a read with a TXID cookie reaches the application only once the local database has reached that TXID")
				rt.Reach("c19.read.caughtup")
			} else {
				rt.Check(w.code == http.StatusGatewayTimeout, "a read that cannot catch up ends in a gateway time-out")
				rt.Reach("c19.read.timeout")
			}
		} else {
			rt.Check(upstream == 1, "reads without a usable cookie (or without the tracked database) go to the application")
		}
		rt.Check(setCookie == nil, "reads set no cookie")
	default: // write, or a read on an always-forward path
		if role != 0 {
			rt.Check(upstream == 0, "a write arriving at a replica is never forwarded to the local application")
			if role == 1 {
				rt.Check(w.Header().Get("fly-replay") == "instance=primary", "a replica redirects writes to the primary")
				rt.Reach("c19.write.redirect")
			} else {
				rt.Check(w.code == http.StatusServiceUnavailable, "without a known primary a write is answered with an error")
				rt.Reach("c19.write.noprimary")
			}
		} else {
			rt.Check(upstream == 1, "on the primary writes go to the application")
			if !isRead && (tracked || createdByWrite) {
				rt.Check(setCookie != nil && setCookie.Name == TXIDCookieName, "a write on the primary issues the TXID cookie (also when that write created the tracked database)")
				if setCookie != nil {
					rt.Check(setCookie.Value == posAfterWrite.TXID.String(), "the cookie names the position at or after the write")
				}
				rt.Reach("c19.write.cookie")
			}
		}
	}
	if !(role == 1 && !isRead || role == 1 && forwarded) || passthrough {
		rt.Check(w.code != 0, "a status is written")
	}
	if upstream == 1 {
		// whatever the proxy adds, the application's response reaches the client intact - and the proxy's
		// cookie reaches the client next to the application's own cookies
		rt.Check(w.code == 201 && string(w.body.B) == "ok", "the application's status and body are relayed")
		xm := w.Header()["X-Multi"]
		rt.Check(len(xm) == 2 && xm[0] == "1" && xm[1] == "2", "multi-valued response headers are relayed")
		sc := w.Header()["Set-Cookie"]
		want := appCookies
		if setCookie != nil {
			want++
		}
		rt.Check(len(sc) == want, "the client receives the application's cookies and, after a write, the proxy's TXID cookie - none replaces another")
		if setCookie != nil {
			found := false
			for _, v := range sc {
				if v == TXIDCookieName+"="+setCookie.Value {
					found = true
				}
			}
			rt.Check(found, "the TXID cookie issued after a write reaches the client")
		}
	}
}
