package http

import (
	"io"

	rt "github.com/superfly/litefs/internal/verifrt"
	"github.com/superfly/ltx"
)

// VerifC18PosMapRoundTrip: ReadPosMapFrom(WritePosMapTo(m)) == m for maps of up
// to 2 entries with symbolic names (<= 2 bytes) and positions, under every
// single-cut / byte-wise splitting; every proper prefix is an error.
func VerifC18PosMapRoundTrip() {
	k := rt.Choose("entries", 3)
	m := map[string]ltx.Pos{}
	names := make([]string, 0, k)
	for i := 0; i < k; i++ {
		n := rt.Choose("name.len", 3)
		name := string(rt.Bytes("name", n))
		for _, o := range names {
			rt.Assume(o != name)
		}
		names = append(names, name)
		m[name] = ltx.Pos{TXID: ltx.TXID(rt.U64("txid")), PostApplyChecksum: ltx.Checksum(rt.U64("chksum"))}
	}
	var w rt.Buf
	rt.Check(WritePosMapTo(&w, m) == nil, "WritePosMapTo succeeds")
	enc := w.B
	switch rt.Choose("scenario", 2) {
	case 0:
		mode, cut := rt.ChooseSplit(len(enc))
		r := &rt.SplitReader{Data: enc, Mode: mode, Cut: cut}
		got, err := ReadPosMapFrom(r)
		rt.Check(err == nil, "complete map decodes")
		rt.Check(len(got) == len(m), "same number of entries")
		for _, name := range names {
			v, ok := got[name]
			rt.Check(ok && v == m[name], "every entry reads back identical")
		}
		rt.Check(r.Pos == len(enc), "decoder consumes exactly the encoding")
		rt.Check(false, "TWIN:posmap round trip never succeeds")
		rt.Reach("c18.posmap.roundtrip")
	case 1:
		p := rt.Choose("prefix.len", len(enc))
		r := &rt.SplitReader{Data: enc[:p], Mode: rt.Choose("split.mode", 2)}
		got, err := ReadPosMapFrom(r)
		rt.Check(err != nil && got == nil, "a proper prefix is an error")
		rt.Check(err == io.EOF || err == io.ErrUnexpectedEOF, "truncation error kind")
		rt.Reach("c18.posmap.prefix")
	}
}

// VerifC18PosMapHostile: a hostile entry count / name length does not cause an
// allocation out of proportion to the input.
func VerifC18PosMapHostile() {
	n := 16
	data := rt.Bytes("in", n)
	which := rt.Choose("hostile.field", 2)
	cnt, nameN := rt.U32("count"), rt.U32("nameN")
	if which == 0 {
		rt.Assume(cnt > 1<<20 && nameN <= 2)
	} else {
		rt.Assume(cnt == 1 && nameN > 1<<20)
	}
	for i := 0; i < 4; i++ {
		data[i] = byte(cnt >> (24 - 8*uint(i)))
		data[4+i] = byte(nameN >> (24 - 8*uint(i)))
	}
	rt.AllocLimit(func(sz int64) {
		rt.Check(sz >= 0 && sz <= 4096+64*int64(n), "allocation is in proportion to the bytes received (<= 4096 + 64 x input length)")
	})
	r := &rt.SplitReader{Data: data}
	got, err := ReadPosMapFrom(r)
	rt.Check(got == nil && err != nil, "truncated map is an error")
	rt.Reach("c18.posmap.hostile")
}

// VerifC18PosMapLongNames: position maps whose database names are at and
// around the longest file name (255 bytes), and maps with many entries.
func VerifC18PosMapLongNames() {
	m := map[string]ltx.Pos{}
	var names []string
	if rt.Choose("shape", 2) == 0 {
		n := []int{254, 255, 256, 1000}[rt.Choose("name.len", 4)]
		names = append(names, string(rt.Bytes("long.name", n)))
	} else {
		for i := 0; i < 40; i++ { // many entries, distinct concrete names
			names = append(names, "db"+string(rune('A'+i%26))+string(rune('a'+i/26)))
		}
	}
	for _, name := range names {
		m[name] = ltx.Pos{TXID: ltx.TXID(rt.U64("txid")), PostApplyChecksum: ltx.Checksum(rt.U64("chksum"))}
	}
	var w rt.Buf
	rt.Check(WritePosMapTo(&w, m) == nil, "WritePosMapTo succeeds")
	r := &rt.SplitReader{Data: w.B, Mode: rt.Choose("split.mode", 2)}
	got, err := ReadPosMapFrom(r)
	rt.Check(err == nil && len(got) == len(m), "a position map the writer produces is accepted by the reader")
	for _, name := range names {
		v, ok := got[name]
		rt.Check(ok && v == m[name], "every entry reads back identical")
	}
	rt.Check(r.Pos == len(w.B), "decoder consumes exactly the encoding")
	rt.Reach("c18.posmap.longnames")
}
