package http

import (
	"bytes"
	"context"
	"io"
	"net/http"
	"net/url"

	"github.com/superfly/litefs"
	rt "github.com/superfly/litefs/internal/verifrt"
	"github.com/superfly/ltx"
)

func verifRequest(method, path, query string, nodeID string, body []byte) *http.Request {
	r := &http.Request{Method: method, URL: &url.URL{Path: path, RawQuery: query}, Header: http.Header{}, ProtoMajor: 2, ProtoMinor: 0,
		Body: io.NopCloser(bytes.NewReader(body))}
	if nodeID != "" {
		r.Header.Set(HeaderNodeID, nodeID)
	}
	return r
}

// verifServer builds a server over a store in the chosen role: 0 primary,
// 1 replica that knows its primary, 2 node without a primary.
func verifServer(role int) (*Server, *litefs.Store, *litefs.DB) {
	var store *litefs.Store
	var db *litefs.DB
	if role == 0 {
		store, db, _ = litefs.VerifPrimaryWorld(1, false)
	} else {
		store, db, _ = litefs.VerifReplicaWorld(1, false)
		if role == 1 {
			litefs.VerifSetPrimaryInfo(store, "http://primary:20202")
		}
	}
	store.Leaser = litefs.NewStaticLeaser(role == 0, "host", "http://host:20202")
	s := &Server{store: store}
	s.ctx = context.Background()
	return s, store, db
}

var verifPaths = []string{"/export", "/halt", "/handoff", "/import", "/info", "/promote", "/stream", "/tx", "/events", "/nope"}
var verifMethods = []string{"GET", "POST", "DELETE", "PUT"}

// VerifC20Invalid: requests that are malformed, use a method the endpoint does
// not support, are not allowed for the node's role, or name a database the
// endpoint requires to exist: a response is produced, nothing panics and the
// node's state (files, positions, locks) is unchanged.
func VerifC20Invalid() {
	role := rt.Choose("role", 3)
	s, store, _ := verifServer(role)
	path := verifPaths[rt.Choose("path", len(verifPaths))]
	method := verifMethods[rt.Choose("method", len(verifMethods))]
	name := []string{"", "name=db", "name=nope"}[rt.Choose("name", 3)]
	// (node 7 is a replica whose stream subscription is registered on this node; node 9 is unknown)
	extra := []string{"", "id=1", "id=x", "nodeID=zz", "nodeID=0000000000000009", "lockID=1", "lockID=0", "nodeID=0000000000000007"}[rt.Choose("param", 8)]
	// the caller's node id: absent, another node's, or this node's own id in any spelling ParseNodeID accepts
	hdrIdx := rt.Choose("node.header", 6)
	nodeHdr := []string{"", "00000000000000AA", litefs.FormatNodeID(store.ID()), "0000000000000b0b", "00000000000000B0B", "B0B"}[hdrIdx]
	ownHdr := hdrIdx >= 2
	rt.Check(store.ID() == 0xB0B, "harness: node id")
	query := name
	if extra != "" {
		if query != "" {
			query += "&"
		}
		query += extra
	}
	body := rt.Bytes("body", rt.Choose("body.len", 2)*40)
	if path == "/tx" && method == "POST" && rt.Choose("tx.body.wellformed", 2) == 1 {
		if db := store.DB("db"); db != nil {
			body = litefs.VerifEncodeTx(db, 0xAA, 42, db.Pos().PostApplyChecksum) // a correctly sequenced transaction file
		}
	}

	// which requests are "valid" in the sense that they may legitimately change state or stream data
	valid := false
	switch {
	case path == "/halt" && method == "POST" && extra == "id=1" && !ownHdr:
		valid = true // creates the database if needed and takes the lock
	case path == "/halt" && method == "DELETE" && extra == "id=1" && name == "name=db":
		valid = true // releasing a lock that is not held is a no-op anyway
	case path == "/import" && method == "POST" && name != "" && role == 0:
		valid = true // may create the database; body validity decides the rest
	case path == "/stream" && method == "POST" && len(body) != 0:
		valid = true // a body that may be a well-formed position map starts a stream: not explored here (C06)
	case path == "/promote" && method == "POST":
		valid = true // not explored here
	case path == "/handoff" && method == "POST" && extra == "nodeID=0000000000000007" && role == 0:
		valid = true // a handoff to a connected replica on the primary (C08)
	}
	// POST /tx is never valid here: no halt lock is held in this harness (the accepted case is VerifC13ForwardedTx)
	if valid {
		rt.Assume(false)
	}
	before := litefs.VerifSnapshotState(store)
	w := &verifRW{}
	req := verifRequest(method, path, query, nodeHdr, body)
	if path == "/events" {
		// an event-stream client that has already gone away: the handler must return and leave nothing behind
		ctx, cancel := context.WithCancel(context.Background())
		cancel()
		req = req.WithContext(ctx)
	}
	s.serveHTTP(w, req)
	code := w.code
	if code == 0 {
		code = 200 // net/http answers 200 when a handler returns without writing
	}
	rt.Check(code >= 200 && code < 600, "a well-formed HTTP status is produced")
	rt.Check(litefs.VerifSameState(before, litefs.VerifSnapshotState(store)), "an invalid or disallowed request leaves databases, positions, transaction logs and locks unchanged")
	isRead := (path == "/export" && method == "GET" && name == "name=db") || (path == "/info" && method == "GET") || (path == "/events" && method == "GET")
	if !isRead {
		rt.Check(code >= 400, "an invalid or disallowed request is answered with an error status")
	} else {
		rt.Check(code == 200, "read-only endpoints answer 200")
	}
	rt.Reach("c20.invalid")
}

// VerifC13ForwardedTx: the primary accepts a forwarded transaction only from
// the current holder of that database's halt lock.
func VerifC13ForwardedTx() {
	ctx := context.Background()
	s, store, db := verifServer(0)
	pos0 := db.Pos()
	holder := rt.Choose("halt.state", 3) // 0 nobody holds the lock, 1 held under id 7, 2 was held and released
	if holder != 0 {
		hl, err := db.AcquireHaltLock(ctx, 7)
		rt.Check(err == nil && hl != nil, "halt lock granted")
		if holder == 2 {
			db.ReleaseHaltLock(ctx, 7)
		}
	}
	claimed := []string{"7", "8", "", "0"}[rt.Choose("claimed.lock", 4)]
	file := litefs.VerifEncodeTx(db, 0xAA, 42, pos0.PostApplyChecksum)
	q := "name=db"
	if claimed != "" {
		q += "&lockID=" + claimed
	}
	w := &verifRW{}
	s.serveHTTP(w, verifRequest("POST", "/tx", q, "00000000000000AA", file))
	code := w.code
	if code == 0 {
		code = 200
	}
	if holder == 1 && claimed == "7" {
		rt.Check(code == 200 && db.Pos().TXID == 42, "the current holder's transaction is applied under the next TXID")
		rt.Reach("c13.tx.accepted")
	} else {
		rt.Check(code >= 400, "a forwarded transaction from anyone but the current halt-lock holder is refused")
		rt.Check(db.Pos() == pos0, "a refused forwarded transaction leaves the position unchanged")
		rt.Reach("c13.tx.refused")
	}
	_ = store
}

// VerifC06ForwardedBadFile: the current halt-lock holder offers a transaction
// file that does not extend the primary's exact position, or is damaged: it is
// refused and nothing of it stays behind - position, image, transaction log,
// halt lock and node all as before.
func VerifC06ForwardedBadFile() {
	ctx := context.Background()
	s, store, db := verifServer(0)
	// one local commit first, so that the transaction log is not empty
	if _, ok := litefs.VerifCommitPage1(db); !ok {
		rt.Fail("harness: setup commit")
	}
	pos0 := db.Pos()
	next := uint64(pos0.TXID) + 1
	hl, err := db.AcquireHaltLock(ctx, 7)
	rt.Check(err == nil && hl != nil, "halt lock granted")
	// (a body damaged without changing its length is decided by the file's CRC, which is an uninterpreted
	// function here: that case is left to c18/ltx and not claimed)
	kind := rt.Choose("file", 7) // 6: a good file, but the lock lapses and the primary commits locally before the body arrives; 0 good, 1 min TXID too high, 2 min TXID too low, 3 other pre-checksum, 4 truncated, 5 snapshot-typed header (min TXID 1) with a truncated body
	txid := next
	pre := pos0.PostApplyChecksum
	switch kind {
	case 1:
		txid = next + 1
	case 2:
		txid = next - 1
	case 3:
		d := rt.U64("pre.delta")
		rt.Assume(d != 0 && d>>63 == 0)
		pre ^= ltx.Checksum(d)
	}
	file := litefs.VerifEncodeTx(db, 0xAA, ltx.TXID(txid), pre)
	if kind == 4 {
		file = file[:len(file)-1-rt.Choose("cut", 3)*200]
	}
	if kind == 5 {
		file = litefs.VerifEncodeSnapshot(db, 0xAA, ltx.TXID(next))
		file = file[:len(file)-1-rt.Choose("cut", 3)*200]
	}
	before := litefs.VerifSnapshotState(store)
	w := &verifRW{}
	req := verifRequest("POST", "/tx", "name=db&lockID=7", "00000000000000AA", file)
	var local ltx.Pos
	if kind == 6 {
		// the request was admitted under the lock, but its body is slow: meanwhile the lock is released
		// (expiry) and a local writer commits the very TXID the late file is numbered with
		req.Body = &verifHookBody{data: file, hook: func() {
			db.ReleaseHaltLock(ctx, 7)
			pos, ok := litefs.VerifCommitPage1(db)
			rt.Check(ok, "harness: local commit after the halt lapsed")
			local = pos
			before = litefs.VerifSnapshotState(store)
		}}
	}
	s.serveHTTP(w, req)
	code := w.code
	if code == 0 {
		code = 200
	}
	if kind == 0 {
		rt.Check(code == 200 && uint64(db.Pos().TXID) == next, "a file that extends the exact position is applied")
		rt.Reach("c06.forwarded.good")
		return
	}
	rt.Check(code >= 400, "a forwarded file that does not extend the exact (ID, checksum) or is damaged is refused")
	if kind == 6 {
		rt.Check(db.Pos() == local, "the primary's own transaction is not overwritten by a late forwarded file with the same number")
	}
	rt.Check(litefs.VerifSameState(before, litefs.VerifSnapshotState(store)), "a refused forwarded file leaves database, position, transaction log (no stray file), locks and halt lock unchanged")
	rt.Reach("c06.forwarded.refused")
}

// verifHookBody is a request body that runs hook when the handler first reads it.
type verifHookBody struct {
	data []byte
	pos  int
	hook func()
}

func (b *verifHookBody) Read(p []byte) (int, error) {
	if b.hook != nil {
		h := b.hook
		b.hook = nil
		h()
	}
	if b.pos >= len(b.data) {
		return 0, io.EOF
	}
	n := copy(p, b.data[b.pos:])
	b.pos += n
	return n, nil
}
func (b *verifHookBody) Close() error { return nil }
