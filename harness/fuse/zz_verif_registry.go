package fuse

var verifHarnesses = map[string]func(){
	"VerifC07FuseReplica": VerifC07FuseReplica,
	"VerifMountJournalTx": VerifMountJournalTx,
	"VerifMountWALTx":     VerifMountWALTx,
	"VerifMountLocks":     VerifMountLocks,
	"VerifMountPos":       VerifMountPos,
	"VerifMountDrop":      VerifMountDrop,
	"VerifMountFlush":     VerifMountFlush,
}
