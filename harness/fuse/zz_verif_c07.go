package fuse

import (
	"context"
	"errors"
	"os"
	"path/filepath"
	"syscall"

	"bazil.org/fuse"
	"github.com/superfly/litefs"
	rt "github.com/superfly/litefs/internal/verifrt"
)

func verifErrno(err error) (fuse.Errno, bool) {
	var en fuse.ErrorNumber
	if errors.As(err, &en) {
		return en.Errno(), true
	}
	return 0, false
}

// VerifC07FuseReplica: the FUSE handlers on a node without write authority:
// page, journal and WAL writes end in EACCES (what the kernel turns into a
// read-only error for SQLite); create/remove/truncate are refused; nothing changes.
func VerifC07FuseReplica() {
	ctx := context.Background()
	wal := rt.Choose("wal.mode", 2) == 1
	store, db, exits := litefs.VerifReplicaWorld(1, wal)
	fsys := &FileSystem{store: store}
	fsys.root = newRootNode(fsys)
	pos0 := db.Pos()
	stray, _ := os.Create(filepath.Join(store.Path(), "stray"))
	before := litefs.VerifTreeDigest(store.Path())
	var err error
	wantEACCES := false
	switch rt.Choose("op", 8) {
	case 0:
		f, oerr := db.OpenDatabase(ctx)
		rt.Check(oerr == nil, "open database")
		h := newDatabaseHandle(newDatabaseNode(fsys, db), f)
		err = h.Write(ctx, &fuse.WriteRequest{Data: rt.Bytes("w", 512), Offset: 0, LockOwner: 1}, &fuse.WriteResponse{})
		wantEACCES = true
	case 1:
		h := newJournalHandle(newJournalNode(fsys, db), stray)
		err = h.Write(ctx, &fuse.WriteRequest{Data: rt.Bytes("j", 28), Offset: 0, LockOwner: 1}, &fuse.WriteResponse{})
		wantEACCES = true
	case 2:
		h := newWALHandle(newWALNode(fsys, db), stray)
		err = h.Write(ctx, &fuse.WriteRequest{Data: rt.Bytes("wf", 32), Offset: 0, LockOwner: 1}, &fuse.WriteResponse{})
		wantEACCES = true
	case 3:
		_, _, err = fsys.root.Create(ctx, &fuse.CreateRequest{Name: "db-journal"}, &fuse.CreateResponse{})
		wantEACCES = true
	case 4:
		err = fsys.root.Remove(ctx, &fuse.RemoveRequest{Name: "db"})
		wantEACCES = true
	case 5:
		err = fsys.root.Remove(ctx, &fuse.RemoveRequest{Name: "db-journal"})
	case 6:
		req := &fuse.SetattrRequest{Valid: fuse.SetattrSize, Size: 0}
		err = newJournalNode(fsys, db).Setattr(ctx, req, &fuse.SetattrResponse{})
	case 7:
		var a, ra fuse.Attr
		rt.Check(newDatabaseNode(fsys, db).Attr(ctx, &a) == nil && a.Mode == 0o444, "database file is presented read-only on a replica")
		rt.Check(fsys.root.Attr(ctx, &ra) == nil && ra.Mode == os.ModeDir|0o555, "mount root is presented read-only on a replica")
		rt.Reach("c07.fuse.attr")
		return
	}
	rt.Check(err != nil, "refused")
	if wantEACCES {
		en, ok := verifErrno(err)
		rt.Check(ok && en == fuse.Errno(syscall.EACCES), "refused with a read-only permission error (EACCES), not a generic I/O error")
	}
	rt.Check(db.Pos() == pos0, "position unchanged")
	rt.Check(litefs.VerifSameTree(before, litefs.VerifTreeDigest(store.Path())), "files unchanged")
	rt.Check(len(exits()) == 0, "not fatal")
	rt.Reach("c07.fuse.refused")
}
