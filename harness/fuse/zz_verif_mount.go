package fuse

import (
	"bytes"
	"context"
	"io"
	"syscall"

	"bazil.org/fuse"
	"bazil.org/fuse/fs"
	"github.com/superfly/litefs"
	rt "github.com/superfly/litefs/internal/verifrt"
)

const vP = litefs.VerifP

func verifMount(n0 int, wal bool) (*FileSystem, *litefs.Store, *litefs.DB, func() []int) {
	store, db, exits := litefs.VerifPrimaryWorld(n0, wal)
	fsys := &FileSystem{store: store}
	fsys.root = newRootNode(fsys)
	return fsys, store, db, exits
}

func verifLookup(ctx context.Context, fsys *FileSystem, name string) fs.Node {
	n, err := fsys.root.Lookup(ctx, name)
	rt.Check(err == nil && n != nil, "mount: lookup of an existing file")
	return n
}

// verifReadPages reads the database file through the handle, page by page.
func verifReadPages(ctx context.Context, dh *DatabaseHandle, owner fuse.LockOwner) [][]byte {
	var a fuse.Attr
	rt.Check(dh.node.Attr(ctx, &a) == nil, "mount: stat database")
	n := int(a.Size / vP)
	rt.Check(uint64(n)*vP == a.Size, "mount: database size is a whole number of pages")
	img := make([][]byte, n)
	for i := 0; i < n; i++ {
		resp := &fuse.ReadResponse{Data: make([]byte, vP)}
		rt.Check(dh.Read(ctx, &fuse.ReadRequest{Offset: int64(i) * vP, Size: vP, LockOwner: owner}, resp) == nil && len(resp.Data) == vP, "mount: page read")
		img[i] = resp.Data
	}
	return img
}

func verifLockReq(owner fuse.LockOwner, start, end uint64, typ fuse.LockType) *fuse.LockRequest {
	return &fuse.LockRequest{LockOwner: owner, Lock: fuse.FileLock{Start: start, End: end, Type: typ}}
}

func verifUnlockReq(owner fuse.LockOwner, start, end uint64) *fuse.UnlockRequest {
	return &fuse.UnlockRequest{LockOwner: owner, Lock: fuse.FileLock{Start: start, End: end, Type: fuse.LockUnlock}}
}

// VerifMountJournalTx: one rollback-journal transaction issued the way SQLite's
// unix VFS issues it, through the FUSE node and handle methods: POSIX lock
// requests, journal create, journal and page writes, truncate, journal
// delete/truncate/zero, unlock.
func VerifMountJournalTx() {
	ctx := context.Background()
	n0 := 1 + rt.Choose("n0", 2)
	fsys, _, db, exits := verifMount(n0, false)
	const owner = fuse.LockOwner(7)
	pos0 := db.Pos()

	dn := verifLookup(ctx, fsys, "db").(*DatabaseNode)
	h, err := dn.Open(ctx, &fuse.OpenRequest{}, &fuse.OpenResponse{})
	rt.Check(err == nil, "mount: open database")
	dh := h.(*DatabaseHandle)
	before := verifReadPages(ctx, dh, owner)
	rt.Check(len(before) == n0, "mount: initial size")

	// SHARED, RESERVED
	rt.Check(dh.Lock(ctx, verifLockReq(owner, litefs.SHARED_FIRST, litefs.SHARED_FIRST+litefs.SHARED_SIZE-1, fuse.LockRead)) == nil, "mount: SHARED lock granted")
	rt.Check(dh.Lock(ctx, verifLockReq(owner, litefs.RESERVED_BYTE, litefs.RESERVED_BYTE, fuse.LockWrite)) == nil, "mount: RESERVED lock granted")
	// another connection cannot become a writer meanwhile, but can still read
	rt.Check(dh.Lock(ctx, verifLockReq(8, litefs.RESERVED_BYTE, litefs.RESERVED_BYTE, fuse.LockWrite)) == syscall.EAGAIN, "mount: second writer refused with EAGAIN")
	rt.Check(dh.Lock(ctx, verifLockReq(8, litefs.SHARED_FIRST, litefs.SHARED_FIRST+litefs.SHARED_SIZE-1, fuse.LockRead)) == nil, "mount: reader admitted beside a RESERVED holder")
	rt.Check(dh.Unlock(ctx, verifUnlockReq(8, 0, ^uint64(0))) == nil, "mount: reader unlock")

	// journal
	_, jhh, err := fsys.root.Create(ctx, &fuse.CreateRequest{Name: "db-journal"}, &fuse.CreateResponse{})
	rt.Check(err == nil, "mount: journal create on a primary")
	jh := jhh.(*JournalHandle)
	nonce := rt.U32("nonce")
	commit := n0 - 1 + rt.Choose("commit.delta", 3)
	rt.Assume(commit >= 1)
	after := make([][]byte, commit)
	copy(after, before)
	wrote := make([]bool, commit)
	var recs []byte
	nrec := 0
	for p := 1; p <= commit; p++ {
		if p <= n0 && !(p == 1 && commit != n0) && rt.Choose("write.page", 2) == 0 {
			continue
		}
		data := rt.Bytes("new", vP)
		if p == 1 {
			litefs.VerifHeaderPage(data, uint32(commit), false)
		}
		if p <= n0 {
			recs = append(recs, litefs.VerifJournalRecord(uint32(p), before[p-1], nonce)...)
			nrec++
		}
		after[p-1] = data
		wrote[p-1] = true
	}
	hdr := litefs.VerifJournalHeader(int32(nrec), nonce, uint32(n0))
	wresp := &fuse.WriteResponse{}
	rt.Check(jh.Write(ctx, &fuse.WriteRequest{Data: hdr, Offset: 0, LockOwner: owner}, wresp) == nil && wresp.Size == len(hdr), "mount: journal header write")
	if len(recs) > 0 {
		rt.Check(jh.Write(ctx, &fuse.WriteRequest{Data: recs, Offset: int64(len(hdr)), LockOwner: owner}, wresp) == nil && wresp.Size == len(recs), "mount: journal records write")
	}
	rt.Check(newJournalNode(fsys, db).Fsync(ctx, &fuse.FsyncRequest{}) == nil, "mount: journal fsync")

	// EXCLUSIVE: PENDING then the SHARED range for writing
	rt.Check(dh.Lock(ctx, verifLockReq(owner, litefs.PENDING_BYTE, litefs.PENDING_BYTE, fuse.LockWrite)) == nil, "mount: PENDING lock granted")
	rt.Check(dh.Lock(ctx, verifLockReq(owner, litefs.SHARED_FIRST, litefs.SHARED_FIRST+litefs.SHARED_SIZE-1, fuse.LockWrite)) == nil, "mount: EXCLUSIVE lock granted")
	for p := 1; p <= commit; p++ {
		if !wrote[p-1] {
			continue
		}
		rt.Check(dh.Write(ctx, &fuse.WriteRequest{Data: after[p-1], Offset: int64(p-1) * vP, LockOwner: owner}, wresp) == nil && wresp.Size == vP, "mount: page write")
	}
	rt.Check(dn.Fsync(ctx, &fuse.FsyncRequest{}) == nil, "mount: database fsync")
	// finalise
	switch rt.Choose("journal.mode", 3) {
	case 0:
		rt.Check(fsys.root.Remove(ctx, &fuse.RemoveRequest{Name: "db-journal"}) == nil, "mount: journal delete commits")
		var ja fuse.Attr
		rt.Check(newJournalNode(fsys, db).Attr(ctx, &ja) == syscall.ENOENT, "mount: journal no longer there")
	case 1:
		jn := verifLookup(ctx, fsys, "db-journal").(*JournalNode)
		rt.Check(jn.Setattr(ctx, &fuse.SetattrRequest{Valid: fuse.SetattrSize, Size: 0}, &fuse.SetattrResponse{}) == nil, "mount: journal truncate commits")
	case 2:
		rt.Check(jh.Write(ctx, &fuse.WriteRequest{Data: make([]byte, litefs.SQLITE_JOURNAL_HEADER_SIZE), Offset: 0, LockOwner: owner}, wresp) == nil, "mount: journal header zeroing commits")
	}
	if commit < n0 {
		sresp := &fuse.SetattrResponse{}
		rt.Check(dn.Setattr(ctx, &fuse.SetattrRequest{Valid: fuse.SetattrSize, Size: uint64(commit) * vP}, sresp) == nil && sresp.Attr.Size == uint64(commit)*vP, "mount: database truncate to the committed size")
	}
	rt.Check(dh.Unlock(ctx, verifUnlockReq(owner, 0, ^uint64(0))) == nil, "mount: unlock all")
	rt.Check(len(exits()) == 0, "mount: not fatal")

	seen := verifReadPages(ctx, dh, owner)
	rt.Check(len(seen) == commit, "mount: size SQLite now sees")
	litefs.VerifCheckCapture(db, pos0, before, seen, false)
	for i := range after {
		litefsSame(seen[i], after[i])
	}
	// after the transaction any connection may write again
	rt.Check(dh.Lock(ctx, verifLockReq(8, litefs.RESERVED_BYTE, litefs.RESERVED_BYTE, fuse.LockWrite)) == nil, "mount: locks released after the transaction")
	rt.Reach("mount.journal.commit")
}

func litefsSame(a, b []byte) {
	rt.Check(bytes.Equal(a, b), "mount: the image read through the mount is what the application wrote")
}

// VerifMountWALTx: one WAL transaction through the FUSE handlers: shm lock
// requests, WAL create/header, frame writes, release of the WRITE lock.
func VerifMountWALTx() {
	ctx := context.Background()
	n0 := 1 + rt.Choose("n0", 2)
	fsys, _, db, exits := verifMount(n0, true)
	const owner = fuse.LockOwner(7)
	pos0 := db.Pos()
	dn := verifLookup(ctx, fsys, "db").(*DatabaseNode)
	h, err := dn.Open(ctx, &fuse.OpenRequest{}, &fuse.OpenResponse{})
	rt.Check(err == nil, "mount: open database")
	dh := h.(*DatabaseHandle)
	before := verifReadPages(ctx, dh, owner)

	_, shh, err := fsys.root.Create(ctx, &fuse.CreateRequest{Name: "db-shm"}, &fuse.CreateResponse{})
	rt.Check(err == nil, "mount: shm create")
	sh := shh.(*SHMHandle)
	_, whh, err := fsys.root.Create(ctx, &fuse.CreateRequest{Name: "db-wal"}, &fuse.CreateResponse{})
	rt.Check(err == nil, "mount: wal create")
	wh := whh.(*WALHandle)

	// DMS shared, READ0 shared, WRITE exclusive
	rt.Check(sh.Lock(ctx, verifLockReq(owner, litefs.WAL_READ_LOCK0+5, litefs.WAL_READ_LOCK0+5, fuse.LockRead)) == nil, "mount: DMS lock")
	rt.Check(sh.Lock(ctx, verifLockReq(owner, litefs.WAL_READ_LOCK0, litefs.WAL_READ_LOCK0, fuse.LockRead)) == nil, "mount: READ0 lock")
	rt.Check(sh.Lock(ctx, verifLockReq(owner, litefs.WAL_WRITE_LOCK, litefs.WAL_WRITE_LOCK, fuse.LockWrite)) == nil, "mount: WRITE lock")
	rt.Check(sh.Lock(ctx, verifLockReq(8, litefs.WAL_WRITE_LOCK, litefs.WAL_WRITE_LOCK, fuse.LockWrite)) == syscall.EAGAIN, "mount: second WAL writer refused with EAGAIN")
	// a connection that does not hold WRITE gets no CKPT lock while a writer is active
	rt.Check(sh.Lock(ctx, verifLockReq(8, litefs.WAL_CKPT_LOCK, litefs.WAL_CKPT_LOCK, fuse.LockWrite)) == syscall.EAGAIN, "mount: CKPT refused while another connection holds WRITE")
	// writes by a connection without the WRITE lock are refused
	wresp := &fuse.WriteResponse{}
	rt.Check(wh.Write(ctx, &fuse.WriteRequest{Data: make([]byte, litefs.WALHeaderSize), Offset: 0, LockOwner: 8}, wresp) != nil, "mount: WAL write without the WRITE lock refused")

	big := rt.Bool("wal.bigendian")
	salt1, salt2 := rt.U32("salt1"), rt.U32("salt2")
	whdr, c1, c2 := litefs.VerifWALHeader(big, salt1, salt2)
	rt.Check(wh.Write(ctx, &fuse.WriteRequest{Data: whdr, Offset: 0, LockOwner: owner}, wresp) == nil && wresp.Size == len(whdr), "mount: WAL header write")

	commit := n0 + rt.Choose("grow", 2)
	after := make([][]byte, commit)
	copy(after, before)
	nf := 1 + rt.Choose("frames", 2)
	off := int64(litefs.WALHeaderSize)
	for i := 0; i < nf; i++ {
		pgno := 1 + rt.Choose("frame.pgno", commit)
		if i == nf-1 && commit > n0 {
			pgno = commit // the appended page is written
		}
		data := rt.Bytes("frame", vP)
		if pgno == 1 {
			litefs.VerifHeaderPage(data, uint32(commit), true)
		}
		cm := uint32(0)
		if i == nf-1 {
			cm = uint32(commit)
		}
		var fh []byte
		fh, c1, c2 = litefs.VerifWALFrameHeader(big, salt1, salt2, c1, c2, uint32(pgno), cm, data)
		if rt.Choose("split", 2) == 0 {
			rt.Check(wh.Write(ctx, &fuse.WriteRequest{Data: fh, Offset: off, LockOwner: owner}, wresp) == nil, "mount: frame header write")
			rt.Check(wh.Write(ctx, &fuse.WriteRequest{Data: data, Offset: off + int64(len(fh)), LockOwner: owner}, wresp) == nil, "mount: frame body write")
		} else {
			rt.Check(wh.Write(ctx, &fuse.WriteRequest{Data: append(append([]byte{}, fh...), data...), Offset: off, LockOwner: owner}, wresp) == nil, "mount: frame write")
		}
		off += int64(len(fh)) + vP
		after[pgno-1] = data
	}
	for i := range after {
		rt.Assume(after[i] != nil)
	}
	rt.Check(db.Pos() == pos0, "mount: nothing is captured before the WRITE lock is released")
	rt.Check(sh.Unlock(ctx, verifUnlockReq(owner, litefs.WAL_WRITE_LOCK, litefs.WAL_WRITE_LOCK)) == nil, "mount: WRITE unlock")
	rt.Check(len(exits()) == 0, "mount: not fatal")
	litefs.VerifCheckCapture(db, pos0, before, after, true)
	// the database file itself is untouched until a checkpoint
	now := verifReadPages(ctx, dh, owner)
	rt.Check(len(now) == len(before), "mount: database file not resized by a WAL commit")
	for i := range now {
		litefsSame(now[i], before[i])
	}
	// what the WAL handle returns is what was written
	rresp := &fuse.ReadResponse{Data: make([]byte, len(whdr))}
	rt.Check(wh.Read(ctx, &fuse.ReadRequest{Offset: 0, Size: len(whdr), LockOwner: owner}, rresp) == nil && bytes.Equal(rresp.Data, whdr), "mount: WAL header read back")
	rt.Check(sh.Lock(ctx, verifLockReq(8, litefs.WAL_WRITE_LOCK, litefs.WAL_WRITE_LOCK, fuse.LockWrite)) == nil, "mount: WRITE lock available after release")
	rt.Reach("mount.wal.commit")
}

// VerifMountLocks: the POSIX lock handlers against the lock table. One other
// connection holds an arbitrary single lock in an arbitrary mode; a request of
// any type over any of the ranges SQLite uses is granted exactly when no
// conflicting holder exists, QueryLock predicts it, and a refusal is EAGAIN.
func VerifMountLocks() {
	ctx := context.Background()
	shm := rt.Choose("file", 2) == 1
	fsys, _, db, _ := verifMount(1, shm)
	dn := newDatabaseNode(fsys, db)
	f, err := db.OpenDatabase(ctx)
	rt.Check(err == nil, "open")
	dh := newDatabaseHandle(dn, f)
	var sh *SHMHandle
	if shm {
		_, shh, err := fsys.root.Create(ctx, &fuse.CreateRequest{Name: "db-shm"}, &fuse.CreateResponse{})
		rt.Check(err == nil, "mount: shm create")
		sh = shh.(*SHMHandle)
	}
	lockFn := func(r *fuse.LockRequest) error {
		if shm {
			return sh.Lock(ctx, r)
		}
		return dh.Lock(ctx, r)
	}
	unlockFn := func(r *fuse.UnlockRequest) error {
		if shm {
			return sh.Unlock(ctx, r)
		}
		return dh.Unlock(ctx, r)
	}
	queryFn := func(r *fuse.QueryLockRequest, resp *fuse.QueryLockResponse) error {
		if shm {
			return sh.QueryLock(ctx, r, resp)
		}
		return dh.QueryLock(ctx, r, resp)
	}
	var bytesList []uint64
	if shm {
		bytesList = []uint64{litefs.WAL_WRITE_LOCK, litefs.WAL_CKPT_LOCK, litefs.WAL_RECOVER_LOCK, litefs.WAL_READ_LOCK0, litefs.WAL_READ_LOCK1, litefs.WAL_READ_LOCK4, litefs.WAL_READ_LOCK4 + 1}
	} else {
		bytesList = []uint64{litefs.PENDING_BYTE, litefs.RESERVED_BYTE, litefs.SHARED_FIRST}
	}
	// other connection (owner 8): nothing, or one byte shared / exclusive
	held := rt.Choose("held", 1+len(bytesList)) - 1
	heldExcl := false
	if held >= 0 {
		heldExcl = rt.Choose("held.mode", 2) == 1
		typ := fuse.LockRead
		if heldExcl {
			typ = fuse.LockWrite
		}
		rt.Check(lockFn(verifLockReq(8, bytesList[held], bytesList[held], typ)) == nil, "mount: first holder admitted on a free lock")
	}
	// the request: a single byte
	want := rt.Choose("want", len(bytesList))
	excl := rt.Choose("want.mode", 2) == 1
	typ := fuse.LockRead
	if excl {
		typ = fuse.LockWrite
	}
	start, end := bytesList[want], bytesList[want]
	if !shm && want == 2 {
		end = litefs.SHARED_FIRST + litefs.SHARED_SIZE - 1
	}
	conflict := held == want && (excl || heldExcl)
	// CKPT is additionally refused while somebody else holds WRITE in any mode
	if shm && excl && bytesList[want] == litefs.WAL_CKPT_LOCK && held >= 0 && bytesList[held] == litefs.WAL_WRITE_LOCK {
		conflict = true
	}
	q := &fuse.QueryLockResponse{Lock: fuse.FileLock{Type: fuse.LockUnlock}}
	rt.Check(queryFn(&fuse.QueryLockRequest{LockOwner: 7, Lock: fuse.FileLock{Start: start, End: end, Type: typ}}, q) == nil, "mount: query answered")
	plain := held == want && (excl || heldExcl)
	if plain {
		rt.Check(q.Lock.Type != fuse.LockUnlock, "mount: query reports a conflicting holder")
		if heldExcl {
			rt.Check(q.Lock.Type == fuse.LockWrite, "mount: query reports an exclusive holder as a write lock")
		} else {
			rt.Check(q.Lock.Type == fuse.LockRead, "mount: query reports shared holders as a read lock")
		}
	} else {
		rt.Check(q.Lock.Type == fuse.LockUnlock, "mount: query reports no conflict when the lock can be taken")
	}
	lerr := lockFn(verifLockReq(7, start, end, typ))
	if conflict {
		rt.Check(lerr == syscall.EAGAIN, "mount: conflicting request refused with EAGAIN")
		// the refusal changed nothing: the holder can still upgrade/downgrade/release as before and a third
		// connection sees the same state
		rt.Check(unlockFn(verifUnlockReq(8, bytesList[held], bytesList[held])) == nil, "unlock")
		rt.Check(lockFn(verifLockReq(9, start, end, fuse.LockWrite)) == nil, "mount: after the holder releases, the lock is free (the refused request left nothing behind)")
		rt.Reach("mount.lock.refused")
		return
	}
	rt.Check(lerr == nil, "mount: compatible request granted")
	// now a third connection conflicts exactly with what is held
	third := lockFn(verifLockReq(9, start, end, fuse.LockWrite))
	rt.Check(third == syscall.EAGAIN, "mount: a granted lock excludes writers")
	rt.Check(unlockFn(verifUnlockReq(7, start, end)) == nil, "mount: unlock")
	if held != want {
		rt.Check(lockFn(verifLockReq(9, start, end, fuse.LockWrite)) == nil || (shm && bytesList[want] == litefs.WAL_CKPT_LOCK && held >= 0 && bytesList[held] == litefs.WAL_WRITE_LOCK), "mount: released lock can be taken exclusively")
	}
	rt.Reach("mount.lock.granted")
}

func verifReadAll(ctx context.Context, n *PosNode, chunk int) ([]byte, error) {
	var out []byte
	for off := int64(0); off < 64; {
		resp := &fuse.ReadResponse{}
		err := n.Read(ctx, &fuse.ReadRequest{Offset: off, Size: chunk}, resp)
		if err != nil {
			if len(out) > 0 && err == io.EOF {
				return out, nil
			}
			return out, err
		}
		if len(resp.Data) == 0 {
			break
		}
		out = append(out, resp.Data...)
		off += int64(len(resp.Data))
	}
	return out, nil
}

// VerifMountPos: what a replica reports through the "-pos" file is the position
// whose image the database handle returns, before and after applying a
// replicated transaction; any read chunking gives the same text.
func VerifMountPos() {
	ctx := context.Background()
	wal := rt.Choose("wal.mode", 2) == 1
	store, db, _ := litefs.VerifReplicaWorld(1+rt.Choose("n0", 2), wal)
	fsys := &FileSystem{store: store}
	fsys.root = newRootNode(fsys)
	pn := verifLookup(ctx, fsys, "db-pos").(*PosNode)
	dn := verifLookup(ctx, fsys, "db").(*DatabaseNode)
	h, err := dn.Open(ctx, &fuse.OpenRequest{}, &fuse.OpenResponse{})
	rt.Check(err == nil, "mount: open database on a replica")
	dh := h.(*DatabaseHandle)
	check := func(tag string, want [][]byte) {
		pos := db.Pos()
		text := pos.TXID.String() + "/" + pos.PostApplyChecksum.String() + "\n"
		rt.Check(len(text) == PosFileSize, "mount: position text has the advertised size")
		chunk := []int{64, 34, 16, 7}[rt.Choose("pos.read.chunk", 4)]
		got, err := verifReadAll(ctx, pn, chunk)
		rt.Check(err == nil, "mount: position file readable")
		rt.Check(string(got) == text, "mount: the position file reports exactly the current position (TXID/checksum)")
		var a fuse.Attr
		rt.Check(pn.Attr(ctx, &a) == nil && a.Size == PosFileSize, "mount: position file size")
		img := verifReadPages(ctx, dh, 3)
		rt.Check(len(img) == len(want), "mount: size at the reported position")
		for i := range img {
			litefsSame(img[i], want[i])
		}
		rt.Check(pos.PostApplyChecksum == litefs.VerifSpecChecksum(img), "C04: mount: reported checksum is the from-scratch checksum of what the handle returns")
	}
	before := verifReadPages(ctx, dh, 3)
	check("before", before)
	file, after, pos1 := litefs.VerifEncodePage1Tx(db)
	rt.Check(litefs.VerifReplicaApply(store, file) == nil, "mount: replicated transaction applied")
	rt.Check(db.Pos() == pos1, "mount: replica is at the primary's position")
	sawPos := false
	for _, k := range litefs.VerifInvalidations(store) {
		if k == "pos" {
			sawPos = true
		}
	}
	rt.Check(sawPos, "mount: the kernel's cached position file is invalidated when the position changes")
	check("after", after)
	rt.Reach("mount.pos")
}

func verifListed(ctx context.Context, fsys *FileSystem) map[string]bool {
	ents, err := NewRootHandle(fsys.root).ReadDirAll(ctx)
	rt.Check(err == nil, "mount: directory listing")
	m := map[string]bool{}
	for _, e := range ents {
		m[e.Name] = true
	}
	return m
}

// VerifMountDrop: deleting a database through the mount on the primary, and
// the same drop arriving on a replica: position +1 with the empty checksum,
// files gone, and the database disappears from the directory listing.
func VerifMountDrop() {
	ctx := context.Background()
	wal := rt.Choose("wal.mode", 2) == 1
	primary := rt.Choose("role", 2) == 0
	var store *litefs.Store
	var db *litefs.DB
	if primary {
		store, db, _ = litefs.VerifPrimaryWorld(1+rt.Choose("n0", 2), wal)
	} else {
		store, db, _ = litefs.VerifReplicaWorld(1+rt.Choose("n0", 2), wal)
	}
	fsys := &FileSystem{store: store}
	fsys.root = newRootNode(fsys)
	pos0 := db.Pos()
	l0 := verifListed(ctx, fsys)
	rt.Check(l0["db"] && l0["db-pos"], "mount: database and its position file are listed while it exists")
	if primary {
		rt.Check(fsys.root.Remove(ctx, &fuse.RemoveRequest{Name: "db"}) == nil, "mount: unlink of the database on the primary")
	} else {
		rt.Check(fsys.root.Remove(ctx, &fuse.RemoveRequest{Name: "db"}) != nil, "mount: unlink of the database refused on a replica")
		rt.Check(db.Pos() == pos0 && verifListed(ctx, fsys)["db"], "mount: refused unlink changes nothing")
		rt.Check(litefs.VerifReplicaApply(store, litefs.VerifEncodeDropTx(db)) == nil, "mount: replica applies the drop")
	}
	pos1 := db.Pos()
	rt.Check(pos1.TXID == pos0.TXID+1 && uint64(pos1.PostApplyChecksum) == 1<<63, "mount: drop advances the position by exactly one with the empty checksum")
	l1 := verifListed(ctx, fsys)
	rt.Check(!l1["db"] && !l1["db-pos"] && !l1["db-journal"] && !l1["db-wal"] && !l1["db-shm"], "mount: the dropped database and its side files disappear from the directory listing")
	var a fuse.Attr
	rt.Check(newDatabaseNode(fsys, db).Attr(ctx, &a) == syscall.ENOENT, "mount: stat of the dropped database reports ENOENT")
	rt.Check(newJournalNode(fsys, db).Attr(ctx, &a) == syscall.ENOENT, "mount: journal of the dropped database is gone")
	rt.Check(newWALNode(fsys, db).Attr(ctx, &a) == syscall.ENOENT, "mount: WAL of the dropped database is gone")
	rt.Check(newSHMNode(fsys, db).Attr(ctx, &a) == syscall.ENOENT, "mount: shm of the dropped database is gone")
	if primary {
		// recreate under the same name through the mount: the sequence continues
		_, h, err := fsys.root.Create(ctx, &fuse.CreateRequest{Name: "db"}, &fuse.CreateResponse{})
		rt.Check(err == nil && h != nil, "mount: a database can be created again under the same name")
		rt.Check(db.Pos() == pos1, "mount: re-creation alone does not move the position")
		rt.Reach("mount.drop.primary")
	} else {
		rt.Reach("mount.drop.replica")
	}
}

// VerifMountFlush: a connection holding database-file and shared-memory locks
// goes away; the kernel flushes its two handles in either order. A handle's
// flush releases that file's locks and only those; after both flushes nothing
// of the connection is left and LiteFS can take its internal write lock.
func VerifMountFlush() {
	ctx := context.Background()
	fsys, _, db, _ := verifMount(1, true)
	dn := newDatabaseNode(fsys, db)
	f, err := db.OpenDatabase(ctx)
	rt.Check(err == nil, "open")
	dh := newDatabaseHandle(dn, f)
	_, shh, err := fsys.root.Create(ctx, &fuse.CreateRequest{Name: "db-shm"}, &fuse.CreateResponse{})
	rt.Check(err == nil, "mount: shm create")
	sh := shh.(*SHMHandle)
	const owner = fuse.LockOwner(7)
	rt.Check(dh.Lock(ctx, verifLockReq(owner, litefs.SHARED_FIRST, litefs.SHARED_FIRST+litefs.SHARED_SIZE-1, fuse.LockRead)) == nil, "SHARED")
	rt.Check(sh.Lock(ctx, verifLockReq(owner, litefs.WAL_READ_LOCK1, litefs.WAL_READ_LOCK1, fuse.LockRead)) == nil, "READ1")
	writer := rt.Choose("holds.write", 2) == 1
	if writer {
		rt.Check(sh.Lock(ctx, verifLockReq(owner, litefs.WAL_WRITE_LOCK, litefs.WAL_WRITE_LOCK, fuse.LockWrite)) == nil, "WRITE")
	}
	dbFirst := rt.Choose("flush.database.first", 2) == 1
	if dbFirst {
		rt.Check(dh.Flush(ctx, &fuse.FlushRequest{LockOwner: owner}) == nil, "flush database handle")
		// the shared-memory locks are still the connection's
		rt.Check(sh.Lock(ctx, verifLockReq(8, litefs.WAL_READ_LOCK1, litefs.WAL_READ_LOCK1, fuse.LockWrite)) == syscall.EAGAIN, "mount: flushing the database handle leaves the connection's shared-memory locks in place")
		rt.Check(sh.Flush(ctx, &fuse.FlushRequest{LockOwner: owner}) == nil, "flush shm handle")
	} else {
		rt.Check(sh.Flush(ctx, &fuse.FlushRequest{LockOwner: owner}) == nil, "flush shm handle")
		rt.Check(dh.Lock(ctx, verifLockReq(8, litefs.SHARED_FIRST, litefs.SHARED_FIRST+litefs.SHARED_SIZE-1, fuse.LockWrite)) == syscall.EAGAIN, "mount: flushing the shm handle leaves the connection's database locks in place")
		rt.Check(dh.Flush(ctx, &fuse.FlushRequest{LockOwner: owner}) == nil, "flush database handle")
	}
	// nothing of the connection is left
	rt.Check(sh.Lock(ctx, verifLockReq(8, litefs.WAL_READ_LOCK1, litefs.WAL_READ_LOCK1, fuse.LockWrite)) == nil, "mount: after both flushes READ1 is free")
	rt.Check(sh.Lock(ctx, verifLockReq(8, litefs.WAL_WRITE_LOCK, litefs.WAL_WRITE_LOCK, fuse.LockWrite)) == nil, "mount: after both flushes WRITE is free")
	rt.Check(dh.Lock(ctx, verifLockReq(8, litefs.SHARED_FIRST, litefs.SHARED_FIRST+litefs.SHARED_SIZE-1, fuse.LockWrite)) == nil, "mount: after both flushes the database range is free")
	rt.Check(sh.Unlock(ctx, verifUnlockReq(8, 0, ^uint64(0))) == nil && dh.Unlock(ctx, verifUnlockReq(8, 0, ^uint64(0))) == nil, "unlock")
	gs := db.TryAcquireWriteLock()
	rt.Check(gs != nil, "mount: LiteFS can take its internal write lock once the connection is gone")
	if gs != nil {
		gs.Unlock()
	}
	// and a WAL write by somebody who holds no lock is refused (no orphaned WRITE lock lends its authority)
	_, whh, werr := fsys.root.Create(ctx, &fuse.CreateRequest{Name: "db-wal"}, &fuse.CreateResponse{})
	if werr == nil {
		wresp := &fuse.WriteResponse{}
		rt.Check(whh.(*WALHandle).Write(ctx, &fuse.WriteRequest{Data: make([]byte, litefs.WALHeaderSize), Offset: 0, LockOwner: 9}, wresp) != nil, "mount: a WAL write without the WRITE lock is refused")
	}
	rt.Reach("mount.flush")
}
