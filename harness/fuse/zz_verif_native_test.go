package fuse

import (
	"testing"

	rt "github.com/superfly/litefs/internal/verifrt"
)

func TestVerifNative(t *testing.T) { rt.RunNativeDir(verifHarnesses) }
