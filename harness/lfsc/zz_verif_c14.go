package lfsc

import (
	"bytes"
	"context"
	"encoding/json"
	"io"
	"net/http"
	"net/url"

	"github.com/superfly/litefs"
	rt "github.com/superfly/litefs/internal/verifrt"
	"github.com/superfly/ltx"
)

// VerifC14CloudClient: the LiteFS Cloud backup client against scripted replies
// of the HTTP transport: every request of one client addresses the same
// cluster and database, carries the credentials, and replies are turned into
// the values SyncBackup relies on (position map, high-water mark, position
// mismatch, snapshot body).
func VerifC14CloudClient() {
	ctx := context.Background()
	store, _, _ := litefs.VerifPrimaryWorld(1, false)
	c := NewBackupClient(store, url.URL{Scheme: "https", Host: "cloud.example"})
	rt.Check(c.Open() == nil, "client opens on an https URL")
	withCluster := rt.Choose("cluster.configured", 2) == 1
	if withCluster {
		c.Cluster = "blue"
	}
	c.AuthToken = "FlyV1 secret"

	var reqs []*http.Request
	var bodies [][]byte
	status := []int{200, 409, 503, 500}[rt.Choose("reply.status", 4)]
	hwmHdr := []string{"000000000000002a", "", "zz"}[rt.Choose("reply.hwm", 3)]
	rt.Stub("(*net/http.Client).Do", func(hc *http.Client, req *http.Request) (*http.Response, error) {
		reqs = append(reqs, req)
		var b []byte
		if req.Body != nil {
			b, _ = io.ReadAll(req.Body)
		}
		bodies = append(bodies, b)
		h := http.Header{}
		if hwmHdr != "" {
			h.Set("Litefs-Hwm", hwmHdr)
		}
		h.Set("Lfsc-Instance-Id", "inst-1")
		return &http.Response{StatusCode: status, Header: h, Body: io.NopCloser(bytes.NewReader([]byte("reply-body")))}, nil
	})
	servedPos := ltx.Pos{TXID: 42, PostApplyChecksum: ltx.ChecksumFlag | 5}
	rt.Stub("(*encoding/json.Decoder).Decode", func(d *json.Decoder, v any) error {
		m := v.(*map[string]ltx.Pos)
		(*m)["db"] = servedPos
		return nil
	})
	rt.Stub("encoding/json.Unmarshal", func(b []byte, v any) error {
		e := v.(*errorResponse)
		if status == 409 {
			e.Code, e.Pos = "EPOSMISMATCH", servedPos
		} else {
			e.Code, e.Error = "EOTHER", "boom"
		}
		return nil
	})

	op := rt.Choose("operation", 3)
	payload := []byte("ltx-bytes")
	var (
		m    map[string]ltx.Pos
		hwm  ltx.TXID
		snap io.ReadCloser
		err  error
	)
	switch op {
	case 0:
		m, err = c.PosMap(ctx)
	case 1:
		hwm, err = c.WriteTx(ctx, "db", bytes.NewReader(payload))
	case 2:
		snap, err = c.FetchSnapshot(ctx, "db")
	}
	rt.Check(len(reqs) == 1, "one request per call")
	req := reqs[0]
	q := req.URL.Query()
	rt.Check(req.URL.Scheme == "https" && req.URL.Host == "cloud.example", "requests go to the configured service")
	if withCluster {
		rt.Check(q.Get("cluster") == "blue", "every request of a client configured for a cluster names that cluster (uploads, position queries and restores address the same chain)")
	} else {
		rt.Check(!q.Has("cluster"), "no cluster parameter unless configured")
	}
	rt.Check(req.Header.Get("Authorization") == "FlyV1 secret", "credentials are sent")
	switch op {
	case 0:
		rt.Check(req.Method == "GET" && req.URL.Path == "/pos", "position map request")
	case 1:
		rt.Check(req.Method == "POST" && req.URL.Path == "/db/tx" && q.Get("db") == "db", "upload request names the database")
		rt.Check(bytes.Equal(bodies[0], payload), "upload body is the transaction data")
	case 2:
		rt.Check(req.Method == "GET" && req.URL.Path == "/db/snapshot" && q.Get("db") == "db", "snapshot request names the database")
	}
	if status != 200 {
		rt.Check(err != nil, "a non-2xx reply is an error")
		var pm *ltx.PosMismatchError
		if status == 409 {
			rt.Check(errorsAs(err, &pm) && pm.Pos == servedPos, "a position mismatch reported by the service carries the service's position (the primary then adopts the service's snapshot)")
			rt.Reach("c14.cloud.mismatch")
		} else {
			rt.Check(!errorsAs(err, &pm), "other errors are not position mismatches")
		}
		rt.Check(m == nil && hwm == 0 && snap == nil, "no value on error")
		return
	}
	switch op {
	case 0:
		rt.Check(err == nil && len(m) == 1 && m["db"] == servedPos, "position map decoded")
	case 1:
		if hwmHdr == "000000000000002a" {
			rt.Check(err == nil && hwm == 42, "the high-water mark is what the service acknowledged")
		} else {
			rt.Check(err != nil && hwm == 0, "a missing or malformed acknowledgement is an error, not a high-water mark")
		}
	case 2:
		rt.Check(err == nil && snap != nil, "snapshot body returned")
		b, _ := io.ReadAll(snap)
		rt.Check(string(b) == "reply-body", "snapshot body is the service's reply")
	}
	rt.Reach("c14.cloud.ok")
}

func errorsAs(err error, target **ltx.PosMismatchError) bool {
	for err != nil {
		if e, ok := err.(*ltx.PosMismatchError); ok {
			*target = e
			return true
		}
		u, ok := err.(interface{ Unwrap() error })
		if !ok {
			return false
		}
		err = u.Unwrap()
	}
	return false
}
