package lfsc

var verifHarnesses = map[string]func(){
	"VerifC14CloudClient": VerifC14CloudClient,
}
